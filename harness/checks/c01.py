"""C01 -- docstring <-> interface round trip in ReST, Google and NumPy styles."""
import contextlib
import copy
import io

from .. import coqbuild, edtie, gtie, irtools as T
from ..common import CORPUS_SEED, GLOBAL_TRUSTED_BASE
from ..model import call_many
from ..pool import guarded, run_cases

THEOREMS = ["C01_default_in_prose", "C01_default_announced_once", "C01_default_stripped", "C01_quote_idempotent", "C01_example",
            "C01_rest_scan_lossless", "C01_rest_scan_splits_at_tokens", "C01_rest_emit_canonical", "C01_rest_parse_canonical",
            "C01_rest_roundtrip", "C01_rest_roundtrip_return_only", "C01_rest_roundtrip_no_types", "C01_rest_emit_indented_canonical", "C01_rest_roundtrip_indented", "C01_rest_example", "C01_rest_tokens_are_the_sources", "C01_no_announcer_no_default", "C01_default_text_roundtrip", "C01_text_without_full_stop_is_kept", "C01_default_text_examples", "C01_announcers_are_the_sources", "C01_rest_default_roundtrip", "C01_rest_default_example", "C01_rest_text_is_detected_as_rest", "C01_style_tokens_are_the_sources", "C01_style_examples", "C01_google_params_roundtrip", "C01_google_line_not_afterward", "C01_google_examples", "C01_numpy_unit_roundtrip", "C01_numpy_params_roundtrip", "C01_numpy_without_types_refuted", "C01_numpy_example", "C01_rest_return_line_value", "C01_rest_param_line_value", "C01_rest_return_line_with_colons", "C01_google_docstring_roundtrip", "C01_google_docstring_example", "C01_numpy_docstring_roundtrip", "C01_numpy_docstring_example", "C01_google_emit_text", "C01_google_emit_parse_roundtrip", "C01_google_emit_example", "C01_numpy_emit_text", "C01_numpy_emit_parse_roundtrip", "C01_numpy_emit_example", "C01_suffix_defaults_are_kept", "C01_defaults_come_out_as_a_suffix", "C01_forced_defaults_example"]
# no " of " / " or ": those make _set_name_and_type infer a type from the prose (parse_adhoc_doc_for_typ, C17's subject), outside Model/RestDoc.v
REST_WORDS = ["the", "size", "within", "buffer", "in", "bytes", "name", "used", "for", "lookup", "how", "many", "items", "(optional)", "e.g.", "a-b",
              "x_y", "[units]", "100%", "fast;", "slow,", "path/to", "it's", '"quoted"', "param", "type", "return", "rtype", "3.5", "N/A", "é"]
REST_NAMES = ["a", "alpha", "beta_2", "x", "dataset_name", "K", "_private", "kw", "n0", "type", "param", "returns", "self"]
REST_TYPES = ["int", "str", "float", "bool", "List[str]", "Optional[int]", "Dict[str, int]", "Literal['a', 'b']", "Union[int, str]",
              "Callable[[int], str]", "np.ndarray", "Tuple[int, ...]"]
SCAN_ALPHABET = [":param", ":type", ":return", ":rtype", ":cvar", ":ivar", ":var", ":raises", ":", "s", " ", "\n", "x", "param", "type", "::", ":r", ":p",
                 "```", "a:", ":returns:", ":rtype:", "é"]
STYLES = ("rest", "google", "numpydoc")
DOCS = ["the value", "first item to use", "the name shown to the user.", "size in bytes,", "extra flag", "base directory",
        "the default port to listen on", "verbose by default",
        "a description long enough to be wrapped by the word wrapper when it is rendered with an indentation level"]


WORDS = ["the", "value", "used", "for", "this", "item", "when", "it", "is", "given", "by", "caller", "and", "kept", "as", "is", "in",
         "every", "case", "a", "size", "limit", "name", "shown", "to", "user", "base", "entry", "extra", "flag", "x"]


def gen_prose(rng):
    """trigger-free prose of a length between 20 and 110 characters (where the word wrapper breaks depends on it)"""
    target = rng.randint(55, 95) if rng.random() < 0.6 else rng.randint(20, 110)
    out = []
    while len(" ".join(out)) < target:
        out.append(rng.choice(WORDS))
    s = " ".join(out)
    while len(s) > target and len(out) > 1:
        s = s[:-1]
    return s.rstrip() or "x"


def gen_ir(rng, style):
    """the docstring-representable domain; for Google/NumPy the defaults form a suffix"""
    from collections import OrderedDict
    n = rng.randint(0, 6)
    names = rng.sample(T.NAMES, n)
    kdef = rng.randint(0, n)
    params = OrderedDict()
    for i, nm in enumerate(names):
        t = T.gen_type(rng, "doc")
        if rng.random() < 0.12:
            t = "Union[int, str]"       # a compound type that mentions str only nested: is a string default still quoted?
        p = {"typ": t, "doc": rng.choice(DOCS) if rng.random() < 0.4 else gen_prose(rng)}
        has = (i >= n - kdef) if style != "rest" else rng.random() < 0.5
        if has:
            inner = t[9:-1] if t.startswith("Optional[") else t
            if t.startswith("Optional[") and rng.random() < 0.3:
                p["default"] = T.NoneStr
            elif inner.startswith("Literal["):
                p["default"] = inner[len("Literal['"):].split("'")[0]
            elif inner in T.SCALARS:
                p["default"] = {"int": rng.choice([0, 5, -3, 42]), "float": rng.choice([0.5, -1.5, 1e+20, 2.25]),
                                "str": rng.choice(["x", "hello world", "a+b", "3", "-1", "True"]), "bool": rng.choice([True, False])}[inner]
            elif inner.startswith("Union[int"):
                p["default"] = rng.choice([5, 5, "abc", "3", "True"]) if "str" in inner else 5
            elif inner.startswith("List") or "." in inner:
                p["default"] = rng.choice(["```[]```", "```None```"]) if rng.random() < 0.5 else T._ABSENT
                if p["default"] is T._ABSENT:
                    del p["default"]
        params[nm] = p
    ir = {"name": "thing", "doc": rng.choice(["Thing description.", "Summary line.\n\nLonger explanation of the thing."]), "params": params,
          "returns": None}
    if rng.random() < 0.5:
        ir["returns"] = OrderedDict((("return_type", {"typ": rng.choice(T.SCALARS), "doc": "the result"}),))
    return ir


def check_case(arg):
    ir, style = arg[0], arg[1]
    cid = arg[2] if len(arg) > 2 else None      # an entry of the fixed corpus: every configuration gets a stable key
    keys = []
    items, n, clean = [], 0, 0
    for edd in (True, False):
        for etypes in (True, False):
            for ww in (True, False):
                for pedd in (False, True):
                    cfg = {"docstring_format": style, "emit_default_doc": edd, "emit_types": etypes, "word_wrap": ww,
                           "parse_emit_default_doc": pedd}
                    # word_wrap and the parser's keep/strip flag are part of the detail, not of the class
                    tag = "%s/%s/%s" % (style, "prose" if edd else "noprose", "types" if etypes else "notypes")
                    ckey = None if cid is None else "%s|%s|%d%d%d%d" % (cid, style, edd, etypes, ww, pedd)
                    if ckey:
                        keys.append(ckey)
                    n += 1
                    try:
                        out, src = T.hop("docstring", ir, cfg)
                    except Exception as e:  # noqa
                        items.append(("C01/%s/raises%s" % (tag, "/" + type(e).__name__ if style == "rest" else ""), {"error": str(e)[:100], "corpus_key": ckey}))
                        continue
                    want = copy.deepcopy(ir)
                    if not edd:
                        # nothing about the default is written: names, order, types, descriptions survive, no default is invented
                        for p in want["params"].values():
                            p.pop("default", None)
                    if not etypes and style != "google":
                        for p in list(want["params"].values()) + ([want["returns"]["return_type"]] if want.get("returns") else []):
                            p.pop("typ", None)
                    if want.get("returns") and not {k: v for k, v in want["returns"]["return_type"].items() if v not in (None, "")}:
                        want["returns"] = None      # nothing of the return entry is written: no entry is the same interface
                    its = T.compare(want, out, edd=True)
                    if not etypes and style != "google":
                        its = [(c, d) for c, d in its if "typ-invented" not in c]   # a type inferred from the default is allowed
                    if not its:
                        clean += 1
                    bare = not etypes and any(not e.get("doc") for e in list(ir["params"].values()) + ([ir["returns"]["return_type"]] if ir.get("returns") else []))
                    for cls, det in its:
                        if bare and cls in ("names/missing", "returns-drift"):
                            # an entry without a description, written with types omitted: nothing of it is written at all
                            cls += "/entry-without-description"
                        elif style != "rest":
                            # Google/NumPy round trips drift in too many ways on the pinned tree for fine classes to be stable
                            # (defaults move between parameters, types lose characters): keep only the kind of drift
                            if cls.startswith("param/default:"):
                                cls = "param/default-drift"
                            elif cls.startswith("param/typ") or cls.startswith("param/Optional"):
                                cls = "param/typ-drift"
                            elif cls.startswith("returns/"):
                                cls = "returns-drift"
                        elif cls.startswith(("param/default:", "returns/default:")):
                            # what becomes of a default depends on whether the parser keeps or strips the announcer (the typed
                            # re-extraction runs in one case only): part of the class, so that one does not hide the other
                            cls += "/parser-keeps-announcer" if pedd else "/parser-strips-announcer"
                            # ... and on whether the declared type is one of simple_types (only then the text is converted by type)
                            decl = ((ir["params"].get(det.get("param")) or {}) if cls.startswith("param/") else ((ir.get("returns") or {}).get("return_type") or {})).get("typ")
                            cls += "/simple-type" if decl in ("int", "float", "str", "bool", "complex") else "/other-type"
                        if cls.startswith("param/") and not (ir["params"].get(det.get("param")) or {"doc": 1}).get("doc"):
                            # a parameter without a description: in ReST the line that would carry "Defaults to" is not written at all
                            cls = "param/default-lost/param-without-description" if "->absent" in cls else cls + "/param-without-description"
                        items.append(("C01/%s/%s" % (tag, cls), dict(det, docstring=src[:300], word_wrap=ww, parser_keeps_announcer=pedd, corpus_key=ckey)))
    return items, n, clean, keys


def sweep_case(arg):
    """ReST, defaults in the prose, every description length 30..120: wherever the word wrapper breaks the line, the default of a
    parameter that is not the last one must come back."""
    from collections import OrderedDict
    name, default, typ = arg
    items, n = [], 0
    for L in range(30, 121):
        doc = ("word " * 40)[:L].rstrip()
        ir = {"name": "thing", "doc": "Thing description.", "returns": None,
              "params": OrderedDict(((name, {"typ": typ, "doc": doc, "default": default}), ("last", {"typ": "str", "doc": "the last one"})))}
        for etypes, pedd in ((True, False), (False, False), (True, True), (False, True)):
            cfg = {"docstring_format": "rest", "emit_default_doc": True, "emit_types": etypes, "word_wrap": True,
                   "parse_emit_default_doc": pedd}
            n += 1
            try:
                out, src = T.hop("docstring", ir, cfg)
            except Exception as e:  # noqa
                items.append(("C01/rest/prose/%s/raises/%s" % ("types" if etypes else "notypes", type(e).__name__), {"error": str(e)[:80]}))
                continue
            want = copy.deepcopy(ir)
            if not etypes:
                for p in want["params"].values():
                    p.pop("typ", None)
            for cls, det in T.compare(want, out, edd=True):
                if "typ-invented" in cls:
                    continue
                items.append(("C01/rest/prose/%s/%s" % ("types" if etypes else "notypes", cls), dict(det, doc_length=L, docstring=src[:300])))
    return items, n


def sdd_case(rng):
    doc = rng.choice(DOCS + ["ends with dot.", "has Defaults inside", "x", "the defaults are fine"])
    typ = rng.choice(["int", "str", "Optional[str]", "float", "bool", "Literal['a', 'b']", None, "List[str]"])
    default = rng.choice([5, -3, 0.5, True, "x", "hello world", '"q"', "'q'", "```f()```", T.NoneStr, "a", ""])
    return {"doc": doc, "typ": typ, "default": default, "edd": rng.random() < 0.7, "has": rng.random() < 0.85}


def sdd_impl(c):
    from cdd.shared.defaults_utils import set_default_doc, needs_quoting
    from cdd.shared.pure_utils import quote
    p = {"doc": c["doc"]}
    if c["typ"]:
        p["typ"] = c["typ"]
    if c["has"]:
        p["default"] = c["default"]
    with contextlib.redirect_stderr(io.StringIO()):
        r = set_default_doc(("name", copy.deepcopy(p)), emit_default_doc=c["edd"])[1]["doc"]
        d = c["default"]
        if c["has"]:
            if isinstance(d, str):
                q = needs_quoting(c["typ"]) and (len(d) < 2 or not d.startswith("`") or not d.endswith("`"))
                text = quote(d) if q else d
            else:
                text = str(quote(d))
        else:
            text = None
        qs = quote(d) if isinstance(d, str) else None
    return r, text, qs


def rest_text(rng):
    return " ".join(rng.choice(REST_WORDS) for _ in range(rng.randint(1, 7)))


def rest_entry(rng):
    k = rng.random()
    if k < 0.5:
        return [rest_text(rng), rng.choice(REST_TYPES)]
    if k < 0.8:
        return [rest_text(rng), None]
    return [None, rng.choice(REST_TYPES)]


def rest_case(rng):
    """a description of the domain of theorem C01_rest_roundtrip: clean prose, distinct plain names, at least one parameter"""
    ps = [[n, rest_entry(rng)] for n in rng.sample(REST_NAMES, rng.randint(0, 5))]
    return {"doc": rest_text(rng), "params": ps, "ret": rest_entry(rng) if (not ps or rng.random() < 0.5) else None,
            "scan": "".join(rng.choice(SCAN_ALPHABET) for _ in range(rng.randint(0, 14)))}


def rest_impl(c):
    from collections import OrderedDict

    from cdd.docstring.emit import docstring
    from cdd.shared.docstring_parsers import _scan_phase_rest, parse_docstring
    from cdd.shared.docstring_utils import ARG_TOKENS, RETURN_TOKENS

    ent = lambda e: {k: v for k, v in (("doc", e[0]), ("typ", e[1])) if v is not None}
    ir = {"name": None, "doc": c["doc"], "params": OrderedDict((n, ent(e)) for n, e in c["params"]),
          "returns": None if c["ret"] is None else OrderedDict((("return_type", ent(c["ret"])),))}
    text = docstring(ir, docstring_format="rest", word_wrap=False, emit_types=True, emit_default_doc=False)
    back = parse_docstring(text, emit_default_doc=False)
    text_nt = docstring(ir, docstring_format="rest", word_wrap=False, emit_types=False, emit_default_doc=False)
    lvl = 1 + len(c["params"]) % 2
    text_in = docstring(ir, docstring_format="rest", word_wrap=False, emit_types=True, emit_default_doc=False, indent_level=lvl)
    shape = lambda r: [r["doc"], [[n, [v.get("doc"), v.get("typ")]] for n, v in r["params"].items()],
                       None if not r["returns"] else [r["returns"]["return_type"].get("doc"), r["returns"]["return_type"].get("typ")]]
    extra = sorted({k for v in back["params"].values() for k in v} - {"doc", "typ"})
    scan = lambda t: [[bool(a), b] for a, b in _scan_phase_rest(t, ARG_TOKENS.rest, RETURN_TOKENS.rest)]
    return {"text": text, "indent_level": lvl, "text_indented": text_in,
            "back_indented": shape(parse_docstring(text_in, emit_default_doc=False)) if text_in else None, "text_no_types": text_nt, "back_no_types": shape(parse_docstring(text_nt, emit_default_doc=False)) if text_nt else None,
            "back": shape(back), "extra_keys": extra, "scan_text": scan(text), "scan_wild": scan(c["scan"])}


def worker(batch):
    out = {"n": 0, "hops": 0, "clean": 0, "items": [], "corr": [], "sdd": 0, "rest": 0, "ed": 0, "ed_found": 0, "corpus_keys": []}
    sdds, eds = [], []
    rests = [p for k, p in batch if k == "rest"]
    if rests:
        impl = [guarded(rest_impl, c, 20) for c in rests]
        ok = [(c, v) for c, (st, v) in zip(rests, impl) if st == "ok"]
        for c, (st, v) in zip(rests, impl):
            if st != "ok":
                out["items"].append(("C01/rest-domain/raises", {"detail": v}, c))
        if ok:
            want = [[c["doc"], c["params"], c["ret"]] for c, _v in ok]
            m_emit = call_many("rest_emit", [[True] + w for w in want])
            m_emit_nt = call_many("rest_emit", [[False] + w for w in want])
            m_parse = call_many("rest_parse", [v["text"] for _c, v in ok])
            m_scan = call_many("rest_scan", [v["text"] for _c, v in ok])
            m_wild = call_many("rest_scan", [c["scan"] for c, _v in ok])
            m_emit_in = call_many("rest_emit_indented", [[v["indent_level"], True] + w for (c, v), w in zip(ok, want)])
            for (c, v), w, mi in zip(ok, want, m_emit_in):
                if v["text_indented"] != mi:
                    out["corr"].append({"stage": "RestDoc emit (indent_level %d)" % v["indent_level"], "input": c, "impl": v["text_indented"], "model": mi})
                if c["params"] and not c.get("adhoc") and v["back_indented"] != w:
                    out["items"].append(("C01/rest-domain/roundtrip-indented", {"want": w, "got": v["back_indented"], "text": v["text_indented"]}, c))
            for (c, v), ment in zip(ok, m_emit_nt):
                if v["text_no_types"] != ment:
                    out["corr"].append({"stage": "RestDoc emit (emit_types off)", "input": c, "impl": v["text_no_types"], "model": ment})
                # the property with types omitted: every parameter that carries a description comes back with name and description
                if not c.get("adhoc") and all(e[0] is not None for _n, e in c["params"]) and (c["ret"] is None or c["ret"][0] is not None):
                    w_nt = [c["doc"], [[n, [e[0], None]] for n, e in c["params"]], None if c["ret"] is None else [c["ret"][0], None]]
                    if v["back_no_types"] != w_nt:
                        out["items"].append(("C01/rest-domain/roundtrip-no-types", {"want": w_nt, "got": v["back_no_types"], "text": v["text_no_types"]}, c))
            for (c, v), w, me, mp, ms, mw in zip(ok, want, m_emit, m_parse, m_scan, m_wild):
                out["rest"] += 1
                if v["back"] != w or v["extra_keys"]:
                    cls = "C01/rest-domain/type-invented-from-prose" if c.get("adhoc") else "C01/rest-domain/roundtrip"
                    out["items"].append((cls, {"want": w, "got": v["back"], "extra_keys": v["extra_keys"], "text": v["text"]}, c))
                for stage, a, b in (("emit", v["text"], me), ("parse", v["back"], mp), ("scan", v["scan_text"], ms), ("scan-any-text", v["scan_wild"], mw)):
                    if stage == "parse" and c.get("adhoc"):
                        continue        # ad hoc typing from the prose is not in Model/RestDoc.v
                    if a != b:
                        out["corr"].append({"stage": "RestDoc " + stage, "input": c, "impl": a, "model": b})
    for kind, payload in batch:
        if kind == "rest":
            continue
        if kind == "ir":
            out["n"] += 1
            st, v = guarded(check_case, payload, 180)
            if st != "ok":
                out["items"].append(("C01/harness/" + st, {"detail": v}, payload[0]))
                continue
            items, n, clean, keys = v
            out["hops"] += n
            out["clean"] += clean
            out["corpus_keys"] += keys
            for cls, det in items:
                out["items"].append((cls, det, payload[0]))
        elif kind == "sweep":
            st, v = guarded(sweep_case, payload, 180)
            if st == "ok":
                out["hops"] += v[1]
                for cls, det in v[0]:
                    out["items"].append((cls, det, {"sweep": list(payload)}))
            else:
                out["items"].append(("C01/harness/" + st, {"detail": v}, None))
        elif kind == "ed":
            eds.append(payload)
        else:
            sdds.append(payload)
    if eds:
        n, found, bad = edtie.compare(eds)
        out["ed"] += n
        out["ed_found"] += found
        out["corr"] += bad
    if sdds:
        impl = [guarded(sdd_impl, c, 10) for c in sdds]
        ok = [(c, v) for c, (st, v) in zip(sdds, impl) if st == "ok"]
        # the model takes the rendered default text as given (quote/needs_quoting decided by the implementation's own helpers);
        # descriptions that already announce a default with emit_default_doc off go through extract_default (not modelled)
        qs = [[c["doc"], v[1], c["edd"]] for c, v in ok]
        ms = call_many("set_default_doc", qs)
        for (c, v), m in zip(ok, ms):
            out["sdd"] += 1
            announces = "Defaults" in c["doc"] or "defaults" in c["doc"]
            if announces and not c["edd"]:
                continue
            if v[0] != m:
                out["corr"].append({"stage": "set_default_doc", "input": c, "impl": v[0], "model": m})
        strs = [c["default"] for c, v in ok if isinstance(c["default"], str)]
        if strs:
            for d, m, (c, v) in zip(strs, call_many("quote", strs), [(c, v) for c, v in ok if isinstance(c["default"], str)]):
                if v[2] != m:
                    out["corr"].append({"stage": "quote", "input": d, "impl": v[2], "model": m})
    return out


def corpus_work(per_style):
    """The fixed corpus: the same interfaces on every run, whatever VERIF_SEED is (entries recorded as clean in corpus/C01.json must stay
    clean -- see Ctx.item).  The first entries of the thorough corpus are the quick one."""
    import random
    crng = random.Random(CORPUS_SEED)
    out = []
    for i in range(100):
        for style in STYLES:
            ir = gen_ir(crng, style)
            if i < per_style:
                out.append(("ir", (ir, style, "c%d" % i)))
    return out


def collect(ctx, n_ir, n_sdd):
    rng = ctx.rng
    work = []
    for i in range(n_ir):
        style = STYLES[i % 3]
        ir = gen_ir(rng, style)
        if ir["params"] and rng.random() < 0.3:
            # parameters that carry a type (and maybe a default) but no description
            for nm in rng.sample(list(ir["params"]), rng.randint(1, len(ir["params"]))):
                ir["params"][nm].pop("doc", None)
        work.append(("ir", (ir, style)))
    # corpus: string defaults that look like other literals, on types that mention str only nested
    from collections import OrderedDict
    for typ, dflt in (("Union[int, str]", "3"), ("Union[int, str]", "True"), ("List[str]", "-1"), ("Union[str, float]", "abc")):
        work.append(("ir", ({"name": "thing", "doc": "Thing description.", "returns": None,
                             "params": OrderedDict((("alpha", {"typ": "int", "doc": "the value"}),
                                                    ("beta", {"typ": typ, "doc": "first item to use", "default": dflt})))}, "rest")))
    # corpus: descriptions with characters whose case-folding changes length (the announcer search folds case), and code-quoted
    # defaults that continue with ".attr" after a closed bracket group (the default scan stops at a sentence-ending ".")
    for style in STYLES:
        work.append(("ir", ({"name": "thing", "doc": "Thing description.", "returns": None,
                             "params": OrderedDict((("size", {"typ": "int", "doc": "Größe des Puffers", "default": -16}),
                                                    ("ratio", {"typ": "float", "doc": "Maß der Auslastung", "default": 12.5}),
                                                    ("label", {"typ": "str", "doc": "İstanbul ﬁle", "default": "hello"})))}, style)))
        work.append(("ir", ({"name": "thing", "doc": "Thing description.", "returns": None,
                             "params": OrderedDict((("count", {"typ": "int", "doc": "the value"}),
                                                    ("sep", {"typ": "Optional[str]", "doc": "the separator", "default": '```("-" * 3).join("ab")```'}),
                                                    ("names", {"typ": "List[str]", "doc": "the names", "default": '```["b", "a"].copy()```'})))}, style)))
    # corpus: one parameter (first / middle / last) with a type and no description; interfaces without parameters and a return entry
    # that has only a description or only a type
    for style in STYLES:
        for k, undoc in enumerate((None, "dataset_name", "batch_size", "shuffle")):
            ps = OrderedDict((("dataset_name", {"typ": "str", "doc": "dataset to load"}), ("batch_size", {"typ": "int", "doc": "rows per batch"}),
                              ("shuffle", {"typ": "bool", "doc": "randomise the row order"})))
            if undoc:
                del ps[undoc]["doc"]
            work.append(("ir", ({"name": "thing", "doc": "Load the dataset.", "params": ps,
                                 "returns": OrderedDict((("return_type", {"typ": "List[str]", "doc": "the loaded rows"}),))}, style, "u%d" % k)))
        for k, ret in enumerate(({"typ": "int", "doc": "the count"}, {"doc": "the count"}, {"typ": "int"})):
            for j, head in enumerate(("Count them.", "")):
                work.append(("ir", ({"name": "thing", "doc": head, "params": OrderedDict(),
                                     "returns": OrderedDict((("return_type", dict(ret)),))}, style, "r%d%d" % (k, j))))
    work += corpus_work(12 if n_ir < 200 else 100)
    work += [("sdd", sdd_case(rng)) for _ in range(n_sdd)]
    work += [("ed", (edtie.gen(rng), rng.random() < 0.5)) for _ in range(2 * n_sdd)]
    work += [("rest", rest_case(rng)) for _ in range(n_sdd)]
    # corpus: a description whose prose makes the parser invent a type (the candidate `name` is eval()ed inside
    # __set_name_and_type_handle_doc_in_param, where `name` is a local variable)
    work.append(("rest", {"doc": "Fetch it", "params": [["_private", ["name of bytes", None]]], "ret": None, "scan": "", "adhoc": True}))
    work += [("sweep", (rng.choice(["workers", "n", "batch_size"]), 5, "int")), ("sweep", ("label", "x", "str")),
             ("sweep", ("clip", rng.choice([1e+20, 2.5e+16, 0.5]), "float"))]
    agg = {"n": 0, "hops": 0, "clean": 0, "sdd": 0, "rest": 0, "ed": 0, "ed_found": 0}
    dist = {"rest_params_per_description": {}, "rest_entry_kinds": {}, "rest_with_return": 0, "ir_styles": {}, "ir_params": {}}
    for kind, payload in work:
        if kind == "rest":
            k = str(len(payload["params"]))
            dist["rest_params_per_description"][k] = dist["rest_params_per_description"].get(k, 0) + 1
            dist["rest_with_return"] += payload["ret"] is not None
            for _n, e in payload["params"]:
                ek = "doc+typ" if e[0] is not None and e[1] is not None else ("doc" if e[0] is not None else "typ")
                dist["rest_entry_kinds"][ek] = dist["rest_entry_kinds"].get(ek, 0) + 1
        elif kind == "ir":
            dist["ir_styles"][payload[1]] = dist["ir_styles"].get(payload[1], 0) + 1
            k = str(len(payload[0].get("params") or {}))
            dist["ir_params"][k] = dist["ir_params"].get(k, 0) + 1
    items, corr, corpus_keys = [], [], []
    for r in run_cases(worker, [work[i:i + 8] for i in range(0, len(work), 8)], chunk=1):
        if "harness_error" in r:
            items.append(("C01/harness/error", {"detail": r}, None))
            continue
        for k in agg:
            agg[k] += r[k]
        items += r["items"]
        corr += r["corr"][:3]
        corpus_keys += r.get("corpus_keys", [])
    agg["distribution"] = dist
    agg["corpus_keys"] = corpus_keys
    return agg, items, corr, work


def run(ctx):
    status = coqbuild.prove("C01", THEOREMS)
    agg, items, corr, work = collect(ctx, 45 if ctx.quick else 1800, 400 if ctx.quick else 18000)
    for cls, det, ir in items:
        ctx.item(cls, {"stage": "render as a docstring and parse it back", "clause": cls, "input": T.jsonable(ir) if ir else None, "detail": det},
                 corpus_key=det.get("corpus_key") if isinstance(det, dict) else None)
    # style detection against Model/StyleDetect.v on token text of the three styles
    STY = SCAN_ALPHABET + ["Args:", "Kwargs:", "Raises:", "Returns:", "Parameters\n----------", "Returns\n-------", "Parameters", "----------", "Returns", "args:", "Args", "\n"]
    sty_texts = ["".join(ctx.rng.choice(STY) for _ in range(ctx.rng.randint(0, 8))) for _ in range(400 if ctx.quick else 10000)]
    from cdd.shared.docstring_utils import derive_docstring_format
    for t_, m_ in zip(sty_texts, call_many("derive_format", sty_texts)):
        i_ = derive_docstring_format(t_).name
        if i_ != m_:
            corr.append({"stage": "derive_docstring_format", "input": t_, "impl": i_, "model": m_})
    # Model/GoogleLine.v (C01_google_*) against emit_param_str and the Google unit reader
    n_g, g_bad = gtie.compare([gtie.gen(ctx.rng) for _ in range(150 if ctx.quick else 4000)])
    corr += g_bad[:3]
    agg["google_lines"] = n_g
    n_n, n_bad = gtie.compare_numpy([gtie.gen_numpy(ctx.rng) for _ in range(150 if ctx.quick else 4000)])
    corr += n_bad[:3]
    agg["numpy_entries"] = n_n
    secs = [gtie.gen_section(ctx.rng) for _ in range(200 if ctx.quick else 6000)]
    docs = [ctx.rng.choice(["", "\n", "\n    "]) + ctx.rng.choice(gtie.HEADS[:3] + ["Two paragraphs.\n\nOf prose"]) + ctx.rng.choice(gtie.SEPS[:4]) + "Args:\n" + s_ for s_ in secs]
    n_s, s_bad = gtie.compare_scan(secs, docs)
    corr += s_bad[:3]
    agg["google_lines"] += n_s
    n_nd, nd_bad = gtie.compare_numpy_doc([gtie.gen_numpy_doc(ctx.rng) for _ in range(200 if ctx.quick else 6000)])
    corr += nd_bad[:3]
    agg["numpy_entries"] += n_nd
    n_ge, ge_bad = gtie.compare_emit([gtie.gen(ctx.rng) for _ in range(150 if ctx.quick else 4000)])
    corr += ge_bad[:3]
    agg["google_lines"] += n_ge
    n_ne, ne_bad = gtie.compare_emit_numpy([gtie.gen(ctx.rng) for _ in range(150 if ctx.quick else 4000)])
    corr += ne_bad[:3]
    agg["numpy_entries"] += n_ne
    n_f, f_bad = gtie.compare_force([gtie.gen_force(ctx.rng) for _ in range(200 if ctx.quick else 6000)])
    corr += f_bad[:3]
    agg["google_lines"] += n_f
    cf_bad = edtie.casefold_facts()
    if cf_bad:
        corr.insert(0, {"stage": "str.casefold facts assumed by Model/ExtractDefault.v:fold_char", "code_points": cf_bad[:10]})
    if not ctx.violations:
        if corr:
            ctx.violation({"stage": "correspondence: Model/DefaultDoc.v, Model/ExtractDefault.v, Model/RestDoc.v vs the implementation (%s)" % corr[0]["stage"],
                           "detail": corr[:3], "n_disagreements": len(corr)}, no_input=True)
        elif not status["ok"]:
            ctx.violation({"stage": "proof", "theorem": status.get("failing_theorem"),
                           "status": {k: status[k] for k in ("theorems", "forbidden", "build_log") if k in status}}, no_input=True)
    cov = {
        "obligations": status["obligations"], "discharged": status["discharged"],
        "checker_cmd": coqbuild.CHECKER_CMD.replace("<id>", "C01"), "theorems": status["theorems"],
        "trusted_base": GLOBAL_TRUSTED_BASE + [
            "Model/RestDoc.v transcribes the ReST emitter (word_wrap off, indent 0, no _internal) and _scan_phase_rest / _parse_phase_rest; "
            "interpolate_defaults, _set_name_and_type and extract_default are NOT in it and act as the identity on the theorem's domain "
            "(clean colon-free prose without a default announcer, names not ending in kwargs): that is checked by the correspondence on "
            "every run, not proved. Model/GoogleLine.v transcribes the Google parameter line of emit_param_str and the one-line unit reader "
            "with the afterward cut (the scanner that forms the units, interpolate_defaults and _set_name_and_type are not in it; the tie "
            "runs whole docstrings through parse_docstring). NumPy, multi-line units and defaults in the prose are evaluated on the "
            "implementation only (differences matched per class); set_default_doc / quote are modelled separately"],
        "evaluations": agg["hops"] + agg["sdd"], "distinct_nontrivial": agg["n"] + agg["sdd"],
        "rule": "IRs of the docstring-representable domain (scalars, Optional, Literal, List, Union, dotted names; int/float(+/-, 1e+20)/"
                "bool/str/None/code-quoted defaults; suffix defaults for Google/NumPy) x 3 styles x emit_default_doc x emit_types x "
                "word_wrap x parser keeps/strips the announcer (16 configurations per style); (doc, type, default, flag) tuples for the "
                "set_default_doc/quote model; (doc, 1..5 parameters, return entry) of the ReST theorem's domain + random texts over a token alphabet "
                "for the scanner transcription",
        "interfaces": agg["n"], "round_trips": agg["hops"], "round_trips_without_any_difference": agg["clean"],
        "input_distribution": agg["distribution"], "corpus_configurations_run": len(agg["corpus_keys"]),
        "set_default_doc_cases": agg["sdd"], "rest_model_cases": agg["rest"], "model_disagreements": len(corr),
        "extract_default_cases": agg["ed"], "extract_default_cases_with_a_default_found": agg["ed_found"],
        "google_lines_and_sections_compared_with_model": agg["google_lines"], "numpy_entries_and_sections_compared_with_model": agg["numpy_entries"],
        "traces_validated_against_impl": agg["sdd"] + 4 * agg["rest"] + agg["ed"] + agg["google_lines"] + agg["numpy_entries"],
        "samples": [T.jsonable(work[0][1][0])],
        "build": {k: status[k] for k in ("build_s", "forbidden")},
    }
    return ctx.finish("proof", cov, assumptions=["the Google / NumPy scanners that form the units, multi-line units and default extraction through the whole pipeline are observed, not proved"])


def replay(ctx, payload):
    return run(ctx)
