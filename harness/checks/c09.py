"""C09 -- the concrete syntax tree is lossless; line ranges tile the file."""
import itertools
import os

from .. import coqbuild
from ..common import GLOBAL_TRUSTED_BASE, REPO, VERIF
from ..model import call_many
from ..pool import guarded, run_cases

THEOREMS = ["C09_lossless_parametric", "C09_lossless", "C09_values", "C09_node_texts_concat",
            "C09_tiling", "C09_last_line", "C09_ex1"]

MODEL_MAX = 2500  # the extracted model is quadratic with a large constant: longer inputs are impl-only

ALPHABET = ["\n", "    ", " ", "'", '"', "'''", '"""', "#", "\\", "(", ")", "[", "]", "{", "}", ":", "=",
            "@", ";", "def", "class", "x", "é", "\r", "\x0c", "pass"]


def impl_nodes(src):
    from cdd.shared.cst import cst_parse

    out = []
    for n in cst_parse(src):
        out.append([type(n).__name__, n.line_no_start, n.line_no_end, n.value,
                    getattr(n, "name", None), getattr(n, "is_double_q", None), getattr(n, "is_docstr", None)])
    return out


def property_on_impl(src, nodes):
    """The property itself, evaluated on the implementation's answer. Returns clause violated or None."""
    if "".join(n[3] for n in nodes) != src:
        return "concatenation of node texts != input"
    prev_end = 1
    for n in nodes:
        if n[1] != prev_end:
            return "node does not start on the line where the previous one ended (or first != 1)"
        if n[2] - n[1] != n[3].count("\n"):
            return "node spans a different number of line breaks than its text contains"
        prev_end = n[2]
    return None


def worker(batch):
    res = {"n": len(batch), "prop_fail": [], "mismatch": [], "raised": 0, "timeouts": [], "nodes": 0,
           "kinds": {}, "multi": 0}
    impl = []
    for src in batch:
        st, v = guarded(impl_nodes, src, 120)
        impl.append((st, v))
    res["impl_only"] = sum(1 for s in batch if len(s) > MODEL_MAX)
    mod = iter(call_many("cst_parse", [s for s in batch if len(s) <= MODEL_MAX]))
    for src, (st, v) in zip(batch, impl):
        m = next(mod) if len(src) <= MODEL_MAX else v
        if st == "timeout":
            res["timeouts"].append(src)
            continue
        if st == "raise":
            res["raised"] += 1
            res["mismatch"].append({"input": src, "impl": v, "model": m, "stage": "cst_parse raised"})
            continue
        clause = property_on_impl(src, v)
        if clause:
            res["prop_fail"].append({"input": src, "clause": clause, "impl_output": v})
        if v != m:
            res["mismatch"].append({"input": src, "impl": v, "model": m, "stage": "cst_parse nodes"})
        res["nodes"] += len(v)
        if len(v) > 1:
            res["multi"] += 1
        for n in v:
            res["kinds"][n[0]] = res["kinds"].get(n[0], 0) + 1
    return res


def repo_files():
    out = []
    for root, dirs, files in os.walk(REPO):
        dirs[:] = [d for d in dirs if d not in (".git", "__pycache__")]
        for f in files:
            if f.endswith(".py"):
                out.append(os.path.join(root, f))
    return sorted(out)


def windows(text, rng, count, lines=30):
    ls = text.splitlines(keepends=True)
    out = []
    for _ in range(count):
        if len(ls) <= lines:
            out.append(text)
        else:
            i = rng.randrange(0, len(ls) - lines)
            out.append("".join(ls[i : i + lines]))
    return out


LINE_TEMPLATES = ["def f(a, b=1):", "async def g(x):", "class K(Base):", "class K:", "def f(): return 1", 'def f(): """doc"""', "x = 1",
                  "y = [1,", "     2]", "z = {'a': (1, 2)}", "@decorator(arg)", "@plain", "return x", "pass", "if x:", "else:", "for i in y:",
                  "with open(p) as f:", "try:", "except E as e:", "lambda q: q", "print('a:b')", '"' * 3, "'" * 3, '"' * 3 + "one-line doc" + '"' * 3,
                  "s = 'it''s'", "a: int = 5", "a = 1; b = 2", "# only a comment", "x = 1  # trailing", "\\", "def h(", "    p,", "):", "",
                  "import os", "from a import (b,", "    c)", "while x: pass", "x = (", ")", "\u00e9 = '\u00fc'"]
TRAILERS = ["", "", "", " ", "   ", "\t", " \t ", "  # c", "\x0c"]
ENDINGS = ["\n", "\n", "\n", "\r\n", "\r", ""]


def structured(rng):
    # line-structured program text: templates x indentation x trailing blanks / tabs / comments x line endings
    out = []
    for _ in range(rng.randint(1, 14)):
        out.append(rng.choice(["", "", "    ", "        ", "\t", "  "]) + rng.choice(LINE_TEMPLATES) + rng.choice(TRAILERS) + rng.choice(ENDINGS))
    return "".join(out)


def mutate(text, rng):
    toks = ALPHABET
    t = list(text)
    for _ in range(rng.randint(1, 4)):
        if not t:
            break
        op = rng.randrange(4)
        i = rng.randrange(len(t))
        if op == 3:
            # trailing blanks at the end of a line
            j = "".join(t).find("\n", i)
            if j >= 0:
                t[j:j] = list(rng.choice([" ", "   ", "\t", " \t"]))
            continue
        if op == 0:
            del t[i : i + rng.randint(1, 3)]
        elif op == 1:
            t[i:i] = t[i : i + rng.randint(1, 5)]
        else:
            t[i:i] = list(rng.choice(toks))
    return "".join(t)


def shrink(src, pred):
    """Greedy deletion shrinking while pred(src) stays true."""
    changed = True
    while changed and len(src) > 1:
        changed = False
        step = max(1, len(src) // 2)
        while step >= 1:
            i = 0
            while i < len(src):
                cand = src[:i] + src[i + step:]
                if cand != src and pred(cand):
                    src = cand
                    changed = True
                else:
                    i += step
            step //= 2
    return src


def gen_inputs(ctx):
    rng = ctx.rng
    groups = {}
    # corpus first
    cdir = os.path.join(VERIF, "corpus", "C09")
    corpus = []
    if os.path.isdir(cdir):
        for f in sorted(os.listdir(cdir)):
            corpus.append(open(os.path.join(cdir, f), newline="").read())
    groups["corpus"] = corpus
    maxlen = 3 if ctx.quick else 4
    ex = []
    for n in range(0, maxlen + 1):
        for tup in itertools.product(ALPHABET, repeat=n):
            ex.append("".join(tup))
    groups["exhaustive_len<=%d" % maxlen] = ex
    longer = []
    for _ in range(3000 if ctx.quick else 150000):
        n = rng.randint(maxlen + 1, 12)
        longer.append("".join(rng.choice(ALPHABET) for _ in range(n)))
    groups["random_len%d..12" % (maxlen + 1)] = longer
    groups["structured_lines"] = [structured(rng) for _ in range(3000 if ctx.quick else 100000)]
    files = []
    muts = []
    wins = []
    for p in repo_files():
        try:
            text = open(p, newline="").read()
        except UnicodeDecodeError:
            continue
        files.append(text)
        if len(text) > MODEL_MAX:
            for w in windows(text, rng, 1 if ctx.quick else 4, lines=25):
                if len(w) <= MODEL_MAX:
                    wins.append(w)
        for w in windows(text, rng, 2 if ctx.quick else 12, lines=25):
            muts.append(mutate(w, rng))
    groups["repo_files"] = files
    groups["repo_file_windows"] = wins
    groups["mutated_windows"] = [m for m in muts if len(m) <= MODEL_MAX]
    return groups


def run(ctx):
    status = coqbuild.prove("C09", THEOREMS)
    groups = gen_inputs(ctx)
    dist = {k: len(v) for k, v in groups.items()}
    allcases = []
    seen = set()
    for k, v in groups.items():
        for s in v:
            if s not in seen:
                seen.add(s)
                allcases.append(s)
    # batches: small strings in big batches, files individually
    small = [s for s in allcases if len(s) < 2000]
    big = [s for s in allcases if len(s) >= 2000]
    big.sort(key=len, reverse=True)
    batches = [[s] for s in big] + [small[i : i + 400] for i in range(0, len(small), 400)]
    tot = {"n": 0, "impl_only": 0, "prop_fail": [], "mismatch": [], "timeouts": [], "nodes": 0, "kinds": {}, "multi": 0}
    harness_errors = []
    if status["driver_ok"]:
        for r in run_cases(worker, batches, chunk=1):
            if "harness_error" in r:
                harness_errors.append(r)
                continue
            tot["n"] += r["n"]
            tot["impl_only"] += r["impl_only"]
            tot["nodes"] += r["nodes"]
            tot["multi"] += r["multi"]
            for k in ("prop_fail", "mismatch", "timeouts"):
                tot[k].extend(r[k])
            for k, c in r["kinds"].items():
                tot["kinds"][k] = tot["kinds"].get(k, 0) + c

    def prop_fails(s):
        st, v = guarded(impl_nodes, s, 20)
        return st == "ok" and property_on_impl(s, v) is not None

    # verdicts
    for pf in tot["prop_fail"][:5]:
        small_in = shrink(pf["input"], prop_fails) if len(pf["input"]) < 5000 else pf["input"]
        st, v = guarded(impl_nodes, small_in, 20)
        ctx.violation({"stage": "property evaluated on the implementation", "input": small_in,
                       "original_input": pf["input"] if len(pf["input"]) < 2000 else pf["input"][:2000],
                       "clause": property_on_impl(small_in, v), "impl_output": v})
    if not tot["prop_fail"]:
        if harness_errors:
            ctx.violation({"stage": "harness error", "detail": harness_errors[:3]}, no_input=True)
        if not status["ok"]:
            ctx.violation({"stage": "proof", "theorem": status.get("failing_theorem"), "status": status}, no_input=True)
        elif tot["mismatch"]:
            def differs(s):
                st, v = guarded(impl_nodes, s, 20)
                return call_many("cst_parse", [s])[0] != (v if st == "ok" else None)
            mm = tot["mismatch"][0]
            s = shrink(mm["input"], differs) if len(mm["input"]) < 5000 else mm["input"]
            st, v = guarded(impl_nodes, s, 20)
            ctx.violation({"stage": "correspondence model<->implementation: cst_parse (theorems C09_* are about a model "
                                    "that no longer matches the code)", "input": s, "impl_output": v,
                           "model_output": call_many("cst_parse", [s])[0], "mismatches": len(tot["mismatch"])}, no_input=True)
        for s in tot["timeouts"][:3]:
            ctx.violation({"stage": "implementation did not return within 20 s", "input": s[:5000]})
    cov = {
        "obligations": status["obligations"], "discharged": status["discharged"],
        "checker_cmd": coqbuild.CHECKER_CMD.replace("<id>", "C09"),
        "trusted_base": GLOBAL_TRUSTED_BASE + ["hand-written model coq/Model/Cst.v of cst_utils.py/pure_utils.py, tied by exact "
                                               "comparison of cst_parse node lists (kind, lines, text, name, quote flags)"],
        "theorems": status["theorems"],
        "evaluations": tot["n"], "impl_only_evaluations_(input longer than %d chars, property evaluated on the implementation only)" % MODEL_MAX: tot["impl_only"], "distinct_nontrivial": tot["multi"],
        "rule": "distinct input strings (deduplicated); non-trivial = the implementation returned more than one node",
        "input_distribution": dist, "nodes_compared": tot["nodes"], "node_kinds": tot["kinds"],
        "correspondence_mismatches": len(tot["mismatch"]), "property_failures_on_impl": len(tot["prop_fail"]),
        "exhaustive": True,
        "exhaustive_scope": "all token sequences of length <= %d over a %d-token lexical alphabet" % (3 if ctx.quick else 4, len(ALPHABET)),
        "samples": [allcases[i] for i in (0, len(allcases) // 3, len(allcases) // 2) if i < len(allcases)][:3]
                   + [s[:200] for s in groups["mutated_windows"][:2]],
        "build": {k: status[k] for k in ("build_s", "gen", "forbidden")},
    }
    return ctx.finish("proof", cov, assumptions=[
        "CPython str.strip/isspace whitespace table as transcribed in Base/PyStr.v (validated by the correspondence)",
    ])


def replay(ctx, payload):
    src = payload.get("input")
    if src is None:
        print("replay has no input (proof/correspondence break): re-running the check")
        return run(ctx)
    st, v = guarded(impl_nodes, src, 20)
    clause = property_on_impl(src, v) if st == "ok" else "did not return: " + st
    print("input:", repr(src))
    print("implementation:", v)
    print("clause violated:", clause)
    return 1 if clause else 0
