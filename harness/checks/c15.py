"""C15 -- docstring prose outside the parameter section is preserved."""
import ast
import contextlib
import io

from .. import coqbuild, gtie
from ..common import GLOBAL_TRUSTED_BASE
from ..model import call_many
from ..pool import guarded, run_cases

THEOREMS = ["C15_slices", "C15_start_is_line_start", "C15_header_prefix", "C15_footer_suffix", "C15_start_example",
            "C15_slices_nonvacuous", "C15_rest_header_survives", "C15_tokens_set_is_the_sources", "C15_google_header_kept", "C15_google_header_examples", "C15_google_header_refuted"]

STYLES = ("rest", "google", "numpydoc")
HEAD_SENT = [
    "Scale every sample of the signal.", "The gain is applied sample by sample; the function then",
    "returns the clipped samples as a new list, so that the", "caller keeps the untouched input.",
    "Nothing is modified in place.", "parameters are validated lazily and", "args: see below for the details",
    "This is the summary", "A note about usage - colons: like this one", "raises nothing on purpose",
    "kwargs are forwarded untouched", "It works in two phases (scan, then parse).", "See also the other module",
    "Values such as `0.5` are fine", "the type is given as text", "returns", "Parameter handling is documented elsewhere",
]
FOOT = [["Notes:", "  Some trailing note."], ["Example:", "  >>> f(1)", "  2"], ["Raises:", "  ValueError: on bad input"],
        ["Usage follows.", "", "    code block"], [".. note:: be careful"], ["See Also", "--------", "other_function"]]
PARAMS = [("signal", "list", "The samples"), ("gain", "float", "The gain factor"), ("mode", "str", "How to clip"),
          ("count", "int", "How many"), ("flag", "bool", "Whether to do it")]


def section(style, params, with_return):
    out = []
    if style == "rest":
        for n, t, d in params:
            out += [":param %s: %s" % (n, d), ":type %s: ```%s```" % (n, t), ""]
        if with_return:
            out += [":return: The result", ":rtype: ```list```"]
        elif out:
            out.pop()
    elif style == "google":
        if params:
            out.append("Args:")
            for n, t, d in params:
                out.append("  %s (%s): %s" % (n, t, d))
        if with_return:
            if out:
                out.append("")
            out += ["Returns:", "  list:", "   The result"]
    else:
        if params:
            out += ["Parameters", "----------"]
            for n, t, d in params:
                out += ["%s : %s" % (n, t), "    %s" % d]
        if with_return:
            if out:
                out.append("")
            out += ["Returns", "-------", "list", "    The result"]
    return out


def gen_doc(rng):
    style = rng.choice(STYLES)
    nh = rng.randint(1, 3)
    header = []
    for p in range(nh):
        header += rng.sample(HEAD_SENT, rng.randint(1, 3))
        header.append("")
    if rng.random() < 0.15:
        # an underlined sub-heading / a horizontal rule inside the header prose
        header += rng.choice([["Background", "----------", "Some background text"], ["Overview text before a rule", "-------", "and after the rule"]])
        header.append("")
    params = rng.sample(PARAMS, rng.randint(0, 3))
    with_return = rng.random() < 0.6 or not params
    sec = section(style, params, with_return)
    glued = rng.random() < 0.2
    if glued and header and header[-1] == "":
        header.pop()        # the last paragraph of the header runs straight into the section: no blank line between them
    footer = rng.choice(FOOT) if rng.random() < 0.4 else []
    level = rng.choice([0, 0, 1, 1, 2])
    lines = header + sec + ([""] + footer if footer else [])
    pad = "    " * level
    # blank lines either empty or carrying the indentation (what editors and the emitter with emit_separating_tab write)
    tabbed = level > 0 and rng.random() < 0.4
    body = "\n".join((pad + l) if (l or tabbed) else l for l in lines)
    ending = rng.choice(["\n" + pad, "\n", ""])
    # what follows the opening quotes: a newline, nothing, or a whitespace-only first line (left behind by an earlier conversion)
    lead = rng.choice(["\n", "\n", "\n", "", pad + "\n" if pad else "\n", "  \n"])
    doc = lead + body + ending
    return {"doc": doc, "style": style, "level": level, "header_lines": [l for l in header if l],
            "footer_lines": [l.strip() for l in footer if l.strip()], "params": [p[0] for p in params],
            "has_footer": bool(footer), "footer_kind": footer[0] if footer else None, "ending": ending, "tabbed_blanks": tabbed, "glued": glued}


def in_order(needles, lines):
    pos = 0
    for n in needles:
        try:
            pos = lines.index(n, pos) + 1
        except ValueError:
            return False
    return True


def impl_case(case):
    from cdd.shared import docstring_utils as du
    import cdd.docstring.emit
    import cdd.function.parse

    doc = case["doc"]
    res = {"start": du._get_token_start_idx(doc)}
    try:
        res["last"] = du._get_token_last_idx(doc)
    except Exception as e:  # noqa
        res["last"] = "RAISED " + type(e).__name__
    try:
        h, a, f = du.parse_docstring_into_header_args_footer(doc, doc)
        res["split"] = [h, a, f]
        res["hafs"] = du.header_args_footer_to_str(h or "", a or "", f or "")
    except Exception as e:  # noqa
        res["split"] = "RAISED " + type(e).__name__
    # conversions through the function parser (carries original_doc_str) to every target style
    conv = {}
    src = "def f(%s):\n    %s\n    return 1\n" % (", ".join(case["params"]), repr(doc))
    try:
        fun = ast.parse(src).body[0]
        for tgt in STYLES:
            with contextlib.redirect_stderr(io.StringIO()):
                ir = cdd.function.parse.function(fun)
                conv[tgt] = cdd.docstring.emit.docstring(ir, docstring_format=tgt)
                # the same at the indentation of a function body (what doctrans and the function emitter ask for)
                conv[tgt + "@1"] = cdd.docstring.emit.docstring(cdd.function.parse.function(fun), docstring_format=tgt, indent_level=1)
            if tgt == "rest":
                res["ir_params"] = {k: [v.get("typ"), repr(v.get("default")) if "default" in v else None]
                                    for k, v in ir["params"].items()}
                r = (ir.get("returns") or {}).get("return_type") or {}
                res["ir_return"] = [r.get("typ"), repr(r.get("default")) if "default" in r else None]
    except Exception as e:  # noqa
        conv["error"] = type(e).__name__ + ": " + str(e)[:100]
    res["conv"] = conv
    # ... and through the docstring parser alone (no original_doc_str: the header is what the parser put into ir["doc"])
    conv2 = {}
    try:
        import cdd.docstring.parse
        for tgt in STYLES:
            with contextlib.redirect_stderr(io.StringIO()):
                ir2 = cdd.docstring.parse.docstring(doc)
                conv2[tgt] = cdd.docstring.emit.docstring(ir2, docstring_format=tgt)
    except Exception as e:  # noqa
        conv2["error"] = type(e).__name__ + ": " + str(e)[:100]
    res["conv2"] = conv2
    return res


def worker(batch):
    out = {"n": len(batch), "items": [], "corr": [], "split_ok": 0, "conv_ok": 0, "conv_err": 0}
    impl = []
    for c in batch:
        st, v = guarded(impl_case, c, 20)
        impl.append((st, v))
    starts = call_many("get_token_start_idx", [c["doc"] for c in batch])
    hafs_in, hafs_idx = [], []
    for i, (c, (st, v)) in enumerate(zip(batch, impl)):
        if st == "ok" and isinstance(v.get("split"), list):
            hafs_in.append([v["split"][0] or "", v["split"][1] or "", v["split"][2] or ""])
            hafs_idx.append(i)
    hafs_model = dict(zip(hafs_idx, call_many("header_args_footer_to_str", hafs_in))) if hafs_in else {}
    for i, (c, (st, v)) in enumerate(zip(batch, impl)):
        if st != "ok":
            out["items"].append({"cls": "C15/harness/" + st, "case": c, "detail": v})
            continue
        if v["start"] != starts[i]:
            out["corr"].append({"stage": "_get_token_start_idx", "input": c["doc"], "impl": v["start"], "model": starts[i]})
        if i in hafs_model and hafs_model[i] != v.get("hafs"):
            out["corr"].append({"stage": "header_args_footer_to_str", "input": hafs_in[hafs_idx.index(i)],
                                "impl": v.get("hafs"), "model": hafs_model[i]})
        # P1: the three parts concatenate to the docstring
        if isinstance(v.get("split"), list):
            h, a, f = v["split"]
            if (h or "") + (a or "") + (f or "") == c["doc"]:
                out["split_ok"] += 1
            else:
                cls = "C15/split-concat/" + ("indented" if c["level"] > 0 else "level0") + \
                      ("/raises-footer" if c["footer_kind"] == "Raises:" else "")
                out["items"].append({"cls": cls, "clause": "header + args + footer != original docstring", "case": c,
                                     "detail": {"parts": v["split"]}})
            # P2a: header prose in the header part
            hl = [l.strip() for l in (h or "").split("\n")]
            if not in_order([x.strip() for x in c["header_lines"]], hl):
                out["items"].append({"cls": "C15/header-part/" + c["style"], "clause": "a header prose line is not in the header part "
                                     "of the split", "case": c, "detail": {"header_part": h}})
        else:
            out["items"].append({"cls": "C15/split-raises", "clause": "split raised", "case": c, "detail": v.get("split")})
        # P2b: header prose present, in order, after conversion to every style
        conv = v["conv"]
        if "error" in conv:
            out["conv_err"] += 1
            out["items"].append({"cls": "C15/convert-raises/%s/%s" % (c["style"], conv["error"].split(":")[0]),
                                 "clause": "conversion raised", "case": c, "detail": conv["error"]})
        for tgt in [t_ for s_ in STYLES for t_ in (s_, s_ + "@1")]:
            if tgt not in conv:
                continue
            ol = [l.strip() for l in conv[tgt].split("\n")]
            if in_order([x.strip() for x in c["header_lines"]], ol):
                out["conv_ok"] += 1
            else:
                missing = [x for x in c["header_lines"] if x.strip() not in ol]
                out["items"].append({"cls": "C15/header-lost/%s->%s" % (c["style"], tgt),
                                     "clause": "a header prose line is missing (or out of order) after conversion",
                                     "case": c, "detail": {"missing": missing, "converted": conv[tgt]}})
        conv2 = v.get("conv2") or {}
        if "error" in conv2:
            out["items"].append({"cls": "C15/convert-raises/docstring-parser/%s/%s" % (c["style"], conv2["error"].split(":")[0]),
                                 "clause": "conversion raised", "case": c, "detail": conv2["error"]})
        for tgt in STYLES:
            if tgt not in conv2:
                continue
            ol = [l.strip() for l in conv2[tgt].split("\n")]
            if in_order([x.strip() for x in c["header_lines"]], ol):
                out["conv_ok"] += 1
            else:
                missing = [x for x in c["header_lines"] if x.strip() not in ol]
                out["items"].append({"cls": "C15/header-lost/docstring-parser/%s->%s%s" % (c["style"], tgt, "/with-footer" if c["has_footer"] else ""),
                                     "clause": "a header prose line is missing (or out of order) after conversion through the docstring parser",
                                     "case": c, "detail": {"missing": missing, "converted": conv2[tgt]}})
        # P3: no prose line absorbed into a type or default
        prose = [x.strip() for x in c["header_lines"] + c["footer_lines"] if len(x.strip()) > 6]
        for name, (typ, dflt) in list((v.get("ir_params") or {}).items()) + [("return", v.get("ir_return") or [None, None])]:
            for field, val in (("type", typ), ("default", dflt)):
                if val and any(p in val for p in prose):
                    where = "footer" if any(p in val for p in [x for x in c["footer_lines"] if len(x) > 6]) else "header"
                    out["items"].append({"cls": "C15/absorbed/%s/%s-into-%s" % (c["style"], where, field),
                                         "clause": "a prose line was absorbed into a parameter's/return's " + field,
                                         "case": c, "detail": {"param": name, field: val}})
    return out


def run(ctx):
    status = coqbuild.prove("C15", THEOREMS)
    rng = ctx.rng
    n = 600 if ctx.quick else 24000
    cases = [gen_doc(rng) for _ in range(n)]
    # corpus: a unit of the parameter section that "ends with its only colon" -- a Google argument whose description starts on the next
    # line, a footer heading right behind the NumPy parameters -- makes the parser move the rest of the section into the description
    for lvl in (0, 1):
        pad = "    " * lvl
        for style, body in (("google", ["Args:", "  signal (list): The samples", "  callbacks (list):", "    what to call afterwards", "  gain (float): The gain factor"]),
                            ("numpydoc", ["Parameters", "----------", "signal : list", "    The samples", "Example:", "    >>> f(1)"])):
            header = ["Scale every sample of the signal.", "", "Training stops early when the loss stops improving."]
            lines = header + [""] + body
            cases.append({"doc": "\n" + "\n".join((pad + l) if l else l for l in lines) + "\n" + pad, "style": style, "level": lvl,
                          "header_lines": [l for l in header if l], "footer_lines": [], "params": ["signal"] if style == "numpydoc" else ["signal", "callbacks", "gain"],
                          "has_footer": False, "footer_kind": None, "ending": "\n" + pad, "tabbed_blanks": False, "glued": False})
    batches = [cases[i:i + 50] for i in range(0, len(cases), 50)]
    agg = {"n": 0, "split_ok": 0, "conv_ok": 0, "conv_err": 0}
    corr = []
    for r in run_cases(worker, batches, chunk=1):
        if "harness_error" in r:
            ctx.violation({"stage": "harness error", "detail": r}, no_input=True)
            continue
        for k in agg:
            agg[k] += r[k]
        corr += r["corr"][:3]
        for it in r["items"]:
            ctx.item(it["cls"], {"stage": "implementation-side property", "clause": it.get("clause"),
                                 "input": {"doc": it["case"]["doc"], "style": it["case"]["style"], "level": it["case"]["level"],
                                           "params": it["case"]["params"]}, "detail": it.get("detail")})
    # Model/GoogleHead.v (C15_google_header_*) against the head of the Google scanner and the parsed description
    n_head, head_bad = gtie.compare_head(list(dict.fromkeys(gtie.gen_head(rng) for _ in range(400 if ctx.quick else 12000))))
    corr += head_bad[:3]
    if not ctx.violations:
        if corr:
            ctx.violation({"stage": "correspondence: Model/DocSplit.v / Model/GoogleHead.v vs the implementation (%s)" % corr[0]["stage"],
                           "input": corr[0]["input"], "impl_output": corr[0]["impl"], "model_output": corr[0]["model"],
                           "n_disagreements": len(corr),
                           "note": "the model of the split no longer describes the code; on the generated docstrings the header "
                                   "prose survived every split and conversion"}, no_input=True)
        elif not status["ok"]:
            ctx.violation({"stage": "proof", "theorem": status.get("failing_theorem"),
                           "status": {k: status[k] for k in ("theorems", "forbidden", "build_log") if k in status}}, no_input=True)
    dist = {}
    for c in cases:
        k = "%s|L%d|%s" % (c["style"], c["level"], "footer" if c["has_footer"] else "nofooter")
        dist[k] = dist.get(k, 0) + 1
    cov = {
        "obligations": status["obligations"], "discharged": status["discharged"],
        "checker_cmd": coqbuild.CHECKER_CMD.replace("<id>", "C15"), "theorems": status["theorems"],
        "trusted_base": GLOBAL_TRUSTED_BASE + [
            "_get_token_last_idx and the re-indentation step of parse_docstring_into_header_args_footer are not transcribed: "
            "C15_slices is parametric in the indices; the concatenation identity is evaluated on the implementation per case",
            "textwrap.indent modelled with '\\n' as the only line break"],
        "evaluations": agg["n"], "distinct_nontrivial": len({c["doc"] for c in cases if c["params"] or c["has_footer"]}),
        "rule": "grammar: 1..3 header paragraphs from a prose vocabulary (incl. lines starting with lower-case token words) x section in "
                "one of 3 styles (0..3 params, optional return) x optional footer (notes/example/raises/usage/rst/numpy see-also) x "
                "indent 0/1/2 levels x 3 endings; each split (doc, doc) and converted to all 3 styles through the function parser; "
                "non-trivial = has parameters or a footer",
        "split_identity_held": agg["split_ok"], "conversions_with_header_intact": agg["conv_ok"],
        "conversions_raising": agg["conv_err"], "correspondence_disagreements": len(corr),
        "traces_validated_against_impl": agg["n"], "input_distribution": dist,
        "samples": [cases[0]["doc"], cases[1]["doc"]],
        "build": {k: status[k] for k in ("build_s", "forbidden")},
    }
    return ctx.finish("proof", cov, assumptions=["Google/NumPy 'afterward' folding is covered by observation only"])


def replay(ctx, payload):
    inp = payload.get("input") or {}
    if isinstance(inp, dict) and "doc" in inp:
        case = {"doc": inp["doc"], "style": inp.get("style"), "level": inp.get("level", 0), "params": inp.get("params", []),
                "header_lines": [], "footer_lines": [], "has_footer": False, "footer_kind": None}
        print(impl_case(case))
        return 0
    return run(ctx)
