"""C14 -- every parser returns a well-formed interface description."""
import ast
import contextlib
import io

from .. import coqbuild
from ..common import GLOBAL_TRUSTED_BASE
from ..model import call_many
from ..pool import guarded, run_cases

THEOREMS = ["C14_name_sanitised", "C14_merge_nodup", "C14_signature_once", "C14_examples", "C14_rest_names_once_and_star_free", "C14_rest_parser_sanitises", "C14_rest_names_example", "C14_google_numpy_names_stripped"]
ALLOWED_KEYS = {"typ", "doc", "default", "x_typ"}
STYLES = ("rest", "google", "numpydoc")
PNAMES = ["alpha", "beta", "gamma", "delta", "eps", "zeta", "return_type", "returns", "type"]
TYPES = ["int", "str", "float", "bool", "Optional[int]", "List[str]", "Literal['a', 'b']", "dict", "np.ndarray",
         "Union[int, str]", "Callable[[int], str]"]
DESCS = ["the value", "how many items\n        to take, continued on a second line", "Either `a` or `b`.", "number of things",
         "whether to do it. Defaults to True", "path to the file", "a name, default is 'x'", "Optional, the thing"]
EXTRA_SECTIONS = {"rest": [[":raises ValueError: when bad"], ["Usage::", "", "    f(1)"], [".. note:: careful"]],
                  "google": [["Raises:", "  ValueError: when bad"], ["Example:", "  >>> f(1)"], ["Note:", "  careful"]],
                  "numpydoc": [["Raises", "------", "ValueError", "    when bad"], ["Notes", "-----", "careful"],
                               ["Examples", "--------", ">>> f(1)"]]}
STAR_NAMES = ["*args", "**kwargs", "**kw", "**kwds", "**options", "*rest"]


def wf_ir(ir, signature_names=None):
    """The documented shape; returns list of (clause-class, detail)."""
    bad = []
    if not isinstance(ir, dict):
        return [("not-a-dict", repr(type(ir)))]
    if "name" not in ir:
        bad.append(("no-name-key", None))
    elif ir["name"] is not None and not isinstance(ir["name"], str):
        bad.append(("name-not-str", repr(ir["name"])))
    if "doc" in ir and ir["doc"] is not None and not isinstance(ir["doc"], str):
        bad.append(("doc-not-str", repr(ir["doc"])[:80]))
    params = ir.get("params")
    if not hasattr(params, "items"):
        bad.append(("params-not-mapping", repr(type(params))))
        params = {}
    seen = []
    for k, v in params.items():
        if not isinstance(k, str) or not k:
            bad.append(("param-name-empty-or-not-str", repr(k)))
        elif k.startswith("*"):
            bad.append(("param-name-leading-asterisk", k))
        seen.append(k)
        bad += entry_wf(k, v)
    if len(seen) != len(set(seen)):
        bad.append(("param-duplicated", seen))
    rets = ir.get("returns")
    if rets is not None:
        if not hasattr(rets, "keys") or list(rets.keys()) != ["return_type"]:
            bad.append(("returns-shape", repr(list(rets.keys()) if hasattr(rets, "keys") else rets)[:80]))
        else:
            bad += entry_wf("return_type", rets["return_type"])
    if signature_names is not None:
        for n in signature_names:
            c = seen.count(n)
            if c != 1:
                bad.append(("signature-param-count", "%s appears %d times" % (n, c)))
    return bad


def entry_wf(k, v):
    bad = []
    if not isinstance(v, dict):
        return [("entry-not-dict", k)]
    extra = set(v.keys()) - ALLOWED_KEYS
    if extra:
        bad.append(("entry-extra-keys:" + "+".join(sorted(extra)), "%s: %s" % (k, sorted(extra))))
    if "typ" in v:
        if not isinstance(v["typ"], str):
            bad.append(("typ-not-str", "%s: %r" % (k, v["typ"])))
        else:
            try:
                ast.parse(v["typ"].strip() or "(", mode="eval")
            except SyntaxError:
                bad.append(("typ-not-expression" + ("-empty" if not v["typ"].strip() else ("-multiline" if "\n" in v["typ"] else "")),
                            "%s: %r" % (k, v["typ"][:80])))
    if "doc" in v and not isinstance(v["doc"], str):
        bad.append(("entry-doc-not-str", "%s: %r" % (k, v["doc"])))
    return bad


def gen_docstring(rng, style, names):
    entries = []
    for n in names:
        t = rng.choice(TYPES + [None])
        if style == "rest" and n.startswith("**") and rng.random() < 0.6:
            t = rng.choice(["**kwargs", n])        # the type of a ** parameter spelled like the parameter (":type kwargs: ```**kwargs```", as cdd's own sources do)
        entries.append((n, t, rng.choice(DESCS)))
    ret = (rng.choice(TYPES), rng.choice(DESCS)) if rng.random() < 0.6 else None
    blocks = []
    if style == "rest":
        p = []
        for n, t, d in entries:
            p.append(":param %s: %s" % (n, d))
            if t:
                p.append(":type %s: ```%s```" % (n, t))
            p.append("")
        blocks.append(p)
        if ret:
            blocks.append([":return: %s" % ret[1], ":rtype: ```%s```" % ret[0], ""])
    elif style == "google":
        if entries:
            p = ["Args:"]
            for n, t, d in entries:
                p.append("  %s%s: %s" % (n, " (%s)" % t if t else "", d))
            p.append("")
            blocks.append(p)
        if ret:
            blocks.append(["Returns:", "  %s:" % ret[0], "   %s" % ret[1], ""])
    else:
        if entries:
            p = ["Parameters", "----------"]
            for n, t, d in entries:
                p += ["%s : %s" % (n, t or "object"), "    %s" % d]
            p.append("")
            blocks.append(p)
        if ret:
            blocks.append(["Returns", "-------", ret[0], "    %s" % ret[1], ""])
    for _ in range(rng.randint(0, 2)):
        blocks.append(rng.choice(EXTRA_SECTIONS[style]) + [""])
    if rng.random() < 0.4:
        rng.shuffle(blocks)
    head = ["Summary line.", "", "Longer description", "over two lines.", ""]
    lines = head + [l for b in blocks for l in b]
    return "\n".join("    " + l if l else l for l in lines)


def gen_case(rng, i):
    kind = ["docstring", "function", "class", "emitted", "text", "class_merge", "sql_source"][i % 7]
    style = rng.choice(STYLES)
    if kind == "sql_source":
        # hand-written SQLAlchemy models: every combination of the column markers the parser folds into the description
        names = rng.sample(PNAMES, rng.randint(1, 5))
        cols = []
        for n in names:
            typ = rng.choice(["Integer", "String", "Boolean", "Float", "JSON", "Enum('a', 'b', name='%s')" % n, "LargeBinary"])
            args = [typ]
            if rng.random() < 0.35:
                args.append('ForeignKey("%s")' % rng.choice(["employee.id", "users.uid"]))
            kws = []
            if rng.random() < 0.35:
                kws.append("primary_key=True")
            if rng.random() < 0.5:
                kws.append("%s=%r" % (rng.choice(["doc", "comment"]), rng.choice(DESCS)))
            if rng.random() < 0.3:
                kws.append("nullable=%s" % rng.choice(["True", "False"]))
            if rng.random() < 0.3:
                kws.append(rng.choice(["default=5", "default='x'", "server_default='0'", "default=None"]))
            cols.append((n, args, kws))
        as_table = rng.random() < 0.5
        documented = rng.sample(names, rng.randint(0, len(names)))
        if as_table:
            src = "t = Table(%s)\n" % ", ".join(['"things"', "metadata"] + ["Column(%s)" % ", ".join(['"%s"' % n] + a + k) for n, a, k in cols]
                                                 + ['comment="Things table"'])
        else:
            doc = "\n".join(["    Things table", ""] + ["    :cvar %s: %s" % (n, rng.choice(DESCS)) for n in documented])
            src = 'class Things(Base):\n    """\n%s\n    """\n\n    __tablename__ = "things"\n\n%s\n' % (
                doc, "\n".join("    %s = Column(%s)" % (n, ", ".join(a + k)) for n, a, k in cols))
        return {"kind": kind, "style": "rest", "src": src, "table": as_table}
    if kind == "docstring":
        names = rng.sample(PNAMES, rng.randint(0, 4))
        if rng.random() < 0.5:
            names += rng.sample(STAR_NAMES, rng.randint(1, 2))
        return {"kind": kind, "style": style, "doc": "\n" + gen_docstring(rng, style, names) + "\n    "}
    if kind == "function":
        sig_names = rng.sample(PNAMES, rng.randint(1, 5))
        ndef = rng.randint(0, len(sig_names))
        sig = [n if i_ < len(sig_names) - ndef else "%s=%s" % (n, rng.choice(["5", "'x'", "None", "0.5", "True"]))
               for i_, n in enumerate(sig_names)]
        star = rng.random() < 0.4
        kw = rng.random() < 0.4
        if star:
            sig.append("*args")
        if kw:
            sig.append("**kwargs")
        documented = rng.sample(sig_names, rng.randint(0, len(sig_names)))
        if star and rng.random() < 0.6:
            documented.append("*args")
        if kw and rng.random() < 0.6:
            documented.append(rng.choice(["**kwargs"]))
        if rng.random() < 0.3:
            documented.append("stale_param")
        doc = gen_docstring(rng, style, documented)
        src = 'def f(%s):\n    """\n%s\n    """\n    return 1\n' % (", ".join(sig), doc)
        return {"kind": kind, "style": style, "src": src, "sig": sig_names}
    if kind == "class":
        names = rng.sample(PNAMES, rng.randint(1, 5))
        body = "\n".join("    %s: %s = %s" % (n, rng.choice(["int", "str", "Optional[int]"]), rng.choice(["5", "None", "'x'"]))
                         for n in names)
        doc = "\n".join(["    Class doc", ""] + ["    :cvar %s: %s" % (n, rng.choice(DESCS)) for n in rng.sample(names, rng.randint(0, len(names)))])
        return {"kind": kind, "style": "rest", "src": 'class K(object):\n    """\n%s\n    """\n\n%s\n' % (doc, body)}
    if kind == "class_merge":
        # a class whose interface lives in an inner function that the parser is asked to merge in
        meth = rng.choice(["__call__", "__init__", "forward"])
        sig_names = rng.sample(PNAMES, rng.randint(1, 4))
        ndef = rng.randint(0, len(sig_names))
        sig = [n if i_ < len(sig_names) - ndef else "%s=%s" % (n, rng.choice(["5", "'x'", "0.5", "True"])) for i_, n in enumerate(sig_names)]
        receiver = rng.choice(["self", "self", None])
        documented = rng.sample(sig_names, rng.randint(0, len(sig_names)))
        doc = "\n".join(["        Do it", ""] + ["        :param %s: %s" % (n, rng.choice(DESCS)) for n in documented])
        deco = "" if receiver else "    @staticmethod\n"
        src = ('class K(object):\n    """\n    Class doc\n    """\n\n%s    def %s(%s):\n        """\n%s\n        """\n        return 1\n'
               % (deco, meth, ", ".join(([receiver] if receiver else []) + sig), doc))
        return {"kind": kind, "style": "rest", "src": src, "sig": sig_names, "merge": meth}
    if kind == "emitted":
        names = rng.sample(PNAMES, rng.randint(1, 4))
        ir = {"name": "Thing", "doc": "Thing doc", "params": {n: {"typ": rng.choice(["int", "str", "bool", "float", "Optional[int]",
                                                                            "Literal['a', 'b']", "Literal['sum', 'sum_over_batch_size']",
                                                                            "Literal['cifar10', 'mnist']", "Optional[Literal['top-k', 'v1.0']]"]),
                                                           "doc": rng.choice(DESCS[:1] + ["number of things"])} for n in names},
              "returns": None}
        for n in names:
            t = ir["params"][n]["typ"]
            if rng.random() < 0.6:
                ir["params"][n]["default"] = {"int": 5, "str": "x", "bool": True, "float": 0.5, "Optional[int]": 3,
                                              "Literal['a', 'b']": "a", "Literal['sum', 'sum_over_batch_size']": "sum",
                                              "Literal['cifar10', 'mnist']": "mnist", "Optional[Literal['top-k', 'v1.0']]": "v1.0"}[t]
        return {"kind": kind, "style": style, "ir": ir, "via": rng.choice(["argparse", "sqlalchemy", "sqlalchemy_table", "json_schema",
                                                                         "pydantic", "class", "function"])}
    alpha = [":param x:", ":type x:", "Args:", "Returns:", "x", " ", "\n", "    ", "*args", "**kw:", "int", "```", ":", "Parameters\n----------\n",
             "y : str\n", "Defaults to 5", ":rtype:", ":return:"]
    return {"kind": kind, "style": None, "doc": "".join(rng.choice(alpha) for _ in range(rng.randint(1, 10)))}


def impl_case(c):
    import cdd.argparse_function.emit, cdd.argparse_function.parse, cdd.class_.emit, cdd.class_.parse, cdd.docstring.parse
    import cdd.function.emit, cdd.function.parse, cdd.json_schema.emit, cdd.json_schema.parse, cdd.pydantic.emit, cdd.pydantic.parse
    import cdd.sqlalchemy.emit, cdd.sqlalchemy.parse
    from cdd.shared.source_transformer import to_code
    from cdd.shared.docstring_parsers import _set_name_and_type

    out = {"raised": None, "bad": [], "returned": False}
    with contextlib.redirect_stderr(io.StringIO()):
        try:
            sig = None
            if c["kind"] in ("docstring", "text"):
                ir = cdd.docstring.parse.docstring(c["doc"])
            elif c["kind"] == "function":
                ir = cdd.function.parse.function(ast.parse(c["src"]).body[0])
                sig = c["sig"]
            elif c["kind"] == "class":
                ir = cdd.class_.parse.class_(ast.parse(c["src"]).body[0])
            elif c["kind"] == "sql_source":
                node = ast.parse(c["src"]).body[0]
                ir = cdd.sqlalchemy.parse.sqlalchemy_table(node) if c["table"] else cdd.sqlalchemy.parse.sqlalchemy(node)
            elif c["kind"] == "class_merge":
                ir = cdd.class_.parse.class_(ast.parse(c["src"]).body[0], merge_inner_function=c["merge"])
                sig = c["sig"]
            else:
                import copy
                base = copy.deepcopy(c["ir"])
                via = c["via"]
                if via == "argparse":
                    node = cdd.argparse_function.emit.argparse_function(base, docstring_format=c["style"])
                    ir = cdd.argparse_function.parse.argparse_ast(ast.parse(to_code(node)).body[0])
                elif via == "sqlalchemy":
                    node = cdd.sqlalchemy.emit.sqlalchemy(base, docstring_format=c["style"])
                    ir = cdd.sqlalchemy.parse.sqlalchemy(ast.parse(to_code(node)).body[0])
                elif via == "sqlalchemy_table":
                    node = cdd.sqlalchemy.emit.sqlalchemy_table(base, docstring_format=c["style"])
                    ir = cdd.sqlalchemy.parse.sqlalchemy_table(ast.parse(to_code(node)).body[0])
                elif via == "json_schema":
                    ir = cdd.json_schema.parse.json_schema(cdd.json_schema.emit.json_schema(base))
                elif via == "pydantic":
                    node = cdd.pydantic.emit.pydantic(base, docstring_format=c["style"])
                    ir = cdd.pydantic.parse.pydantic(ast.parse(to_code(node)).body[0])
                elif via == "class":
                    node = cdd.class_.emit.class_(base, docstring_format=c["style"])
                    ir = cdd.class_.parse.class_(ast.parse(to_code(node)).body[0])
                else:
                    node = cdd.function.emit.function(base, function_name="f", function_type="static", docstring_format=c["style"])
                    ir = cdd.function.parse.function(ast.parse(to_code(node)).body[0])
                    sig = list(c["ir"]["params"])
            out["returned"] = True
            out["bad"] = wf_ir(ir, sig)
            out["n_params"] = len(ir.get("params") or {})
        except Exception as e:  # noqa
            out["raised"] = type(e).__name__
    return out


def worker(batch):
    res = {"n": len(batch), "returned": 0, "raised": 0, "items": [], "by_kind": {}, "san_mismatch": []}
    for c in batch:
        st, v = guarded(impl_case, c, 20)
        k = c["kind"] + ("/" + c.get("via", "") if c["kind"] == "emitted" else "")
        res["by_kind"][k] = res["by_kind"].get(k, 0) + 1
        if st != "ok":
            res["items"].append({"cls": "C14/harness/" + st, "case": c, "detail": v})
            continue
        if v["returned"]:
            res["returned"] += 1
        else:
            res["raised"] += 1
        for cls, det in v["bad"]:
            res["items"].append({"cls": "C14/%s/%s%s" % (cls, k, ("/" + c["style"]) if c["kind"] in ("docstring", "function") and cls.startswith("typ") else ""),
                                 "case": c, "detail": det})
    # name-sanitising correspondence
    names = STAR_NAMES + PNAMES + ["***x", "*", "**", "kwargs", "*kwargs", "x*", "**a*b", ""]
    from cdd.shared.docstring_parsers import _set_name_and_type
    model = call_many("sanitise_name", names)
    with contextlib.redirect_stderr(io.StringIO()):
        for n, m in zip(names, model):
            try:
                got = _set_name_and_type((n, {}), infer_type=False, word_wrap=True)[0]
            except Exception as e:  # noqa
                got = "RAISED " + type(e).__name__
            if got != m:
                res["san_mismatch"].append({"input": n, "impl": got, "model": m})
    return res


REST_WILD = [":param", ":type", ":return", ":rtype", ":cvar", ":ivar", ":var", ":raises", ":", " ", "\n", "x", "y", "*args", "**kw", "kwargs", "***", "*",
             " x:", " y:", " x: ", "int", "the value", "```int```", "::", "Doc line.", "\n\n", "    "]


def rest_names_tie(texts):
    import contextlib
    import io
    from cdd.shared.docstring_parsers import parse_docstring
    ms = call_many("rest_parse", texts)
    bad, n = [], 0
    for t, m in zip(texts, ms):
        try:
            with contextlib.redirect_stderr(io.StringIO()):
                ir = parse_docstring(t, emit_default_doc=False)
        except Exception:  # noqa
            continue
        n += 1
        names, mnames = list(ir["params"].keys()), [x[0] for x in m[1]]
        if names != mnames or (ir["returns"] is None) != (m[2] is None):
            bad.append({"input": t, "impl": [names, ir["returns"] is not None], "model": [mnames, m[2] is not None]})
    return bad, n


def run(ctx):
    status = coqbuild.prove("C14", THEOREMS)
    rng = ctx.rng
    n = 1000 if ctx.quick else 36000
    cases = [gen_case(rng, i) for i in range(n)]
    batches = [cases[i:i + 50] for i in range(0, len(cases), 50)]
    agg = {"n": 0, "returned": 0, "raised": 0}
    by_kind = {}
    san = []
    for r in run_cases(worker, batches, chunk=1):
        if "harness_error" in r:
            ctx.violation({"stage": "harness error", "detail": r}, no_input=True)
            continue
        for k in agg:
            agg[k] += r[k]
        for k, v in r["by_kind"].items():
            by_kind[k] = by_kind.get(k, 0) + v
        san += r["san_mismatch"][:2]
        for it in r["items"]:
            c = it["case"]
            ctx.item(it["cls"], {"stage": "implementation-side property (well-formedness of the returned IR)",
                                 "clause": it["cls"].split("/")[1],
                                 "input": {k: c[k] for k in c if k in ("kind", "style", "doc", "src", "ir", "via")}, "detail": it["detail"]})
    # Model/RestDoc.v parse_rest against the docstring parser on arbitrary token text (the domain of C14_rest_names_once_and_star_free
    # is every string): the parameter names, in order, and whether a return entry exists -- whenever the parser returns
    wild = ["".join(rng.choice(REST_WILD) for _ in range(rng.randint(0, 12))) for _ in range(600 if ctx.quick else 20000)]
    wild.append(":param x: a :param **kw: b :param x: c :param *args: d :type kw: ```dict```")
    rest_bad, rest_n = rest_names_tie(wild)
    if not ctx.violations:
        if rest_bad:
            ctx.violation({"stage": "correspondence: Model/RestDoc.v parse_rest (names, return entry) vs parse_docstring on arbitrary text",
                           "detail": rest_bad[:3], "n_disagreements": len(rest_bad)}, no_input=True)
        elif san:
            ctx.violation({"stage": "correspondence: Model/NameSan.v sanitise_name vs _set_name_and_type", "input": san[0]["input"],
                           "impl_output": san[0]["impl"], "model_output": san[0]["model"]}, no_input=True)
        elif not status["ok"]:
            ctx.violation({"stage": "proof", "theorem": status.get("failing_theorem"),
                           "status": {k: status[k] for k in ("theorems", "forbidden", "build_log") if k in status}}, no_input=True)
    cov = {
        "obligations": status["obligations"], "discharged": status["discharged"],
        "checker_cmd": coqbuild.CHECKER_CMD.replace("<id>", "C14"), "theorems": status["theorems"],
        "trusted_base": GLOBAL_TRUSTED_BASE + [
            "the theorems cover name sanitising and the signature/documentation merge; the remaining clauses of the shape (keys, "
            "string-ness, type parses as an expression, single return entry) are evaluated on the implementation's result per case"],
        "evaluations": agg["n"], "distinct_nontrivial": agg["returned"],
        "rule": "grammar-generated docstrings (3 styles, sections in any order, raises/usage/notes sections, multi-line descriptions, "
                "*args/**kwargs/**kw entries), functions documenting subsets/stale names with *args/**kwargs, classes, "
                "argparse/SQLAlchemy/JSON-schema/pydantic/class/function artefacts emitted from IRs, and token-alphabet text; "
                "non-trivial = the parser returned (its result was checked)",
        "parser_returned": agg["returned"], "parser_raised": agg["raised"], "input_distribution": by_kind,
        "name_sanitise_disagreements": len(san), "rest_parser_texts_compared_with_model": rest_n, "rest_parser_disagreements": len(rest_bad),
        "traces_validated_against_impl": agg["returned"] + rest_n,
        "samples": [cases[0].get("doc"), cases[1].get("src")],
        "build": {k: status[k] for k in ("build_s", "forbidden")},
    }
    return ctx.finish("proof", cov, assumptions=["'type parses as a Python expression' is checked with ast.parse on the implementation's "
                                                 "result (no Python grammar in the model)"])


def replay(ctx, payload):
    inp = payload.get("input") or {}
    if isinstance(inp, dict) and "kind" in inp:
        r = impl_case(inp)
        print(r)
        return 1 if r["bad"] else 0
    return run(ctx)
