"""C03 -- any chain of format conversions preserves the interface."""
import itertools

from .. import argtie, coqbuild, irtools as T
from ..common import CORPUS_SEED, GLOBAL_TRUSTED_BASE
from ..model import call_many
from ..normtools import enc_def, enc_typ, state_of
from ..pool import guarded, run_cases

THEOREMS = ["C03_chain", "C03_commute", "C03_refuted_absent_via_function", "C03_refuted_none_via_docstring",
            "C03_refuted_negative_int_via_docstring", "C03_refuted_argparse_zero", "C03_nonvacuous", "C03_argparse_row_derived", "C03_argparse_row_examples"]
FORMATS = ["class", "pydantic", "function", "argparse", "docstring"]


def gen_ir(rng, stable):
    """common domain; stable=True: every parameter carries a non-None default, ints non-negative (dom03)"""
    from collections import OrderedDict
    n = rng.randint(1, 5)
    names = rng.sample(T.NAMES, n)
    kdef = n if stable else rng.randint(0, n)
    params = OrderedDict()
    for i, nm in enumerate(names):
        k = rng.random()
        base = rng.choice(T.SCALARS)
        if k < 0.45:
            t = base
        elif k < 0.75:
            t = "Optional[%s]" % base
        else:
            t = "Literal[%s]" % ", ".join("'%s'" % m for m in rng.sample(["a", "b", "np", "tf", "1", "2", "3"], rng.randint(2, 3)))
        p = {"typ": t, "doc": rng.choice(T.PLAIN_DOCS)}
        if i >= n - kdef:
            inner = t[9:-1] if t.startswith("Optional[") else t
            if t.startswith("Optional[") and not stable and rng.random() < 0.35:
                p["default"] = T.NoneStr
            elif inner.startswith("Literal["):
                p["default"] = inner[len("Literal['"):].split("'")[0]
            elif inner == "int":
                p["default"] = rng.choice([0, 5, 42] + ([] if stable else [-3]))
            elif inner == "float":
                p["default"] = rng.choice([0.5, 2.25, 0.0, -1.5, -3.0])
            elif inner == "str":
                p["default"] = rng.choice(["x", "hello", "a b", "2"])
            else:
                p["default"] = rng.choice([True, False])
        params[nm] = p
    return {"name": "Thing", "doc": "Thing description.", "params": params, "returns": None}


def run_chain(arg):
    ir, chain = arg
    states, docs, cur = [], [], ir
    hop_items = []
    for f in chain:
        try:
            # "docstring+" = the docstring hop with the parser keeping the 'Defaults to' remark in the description
            nxt, _src = T.hop("docstring", cur, {"parse_emit_default_doc": True}) if f == "docstring+" else T.hop(f, cur, {})
        except Exception as e:  # noqa
            return {"raised": [f, type(e).__name__, str(e)[:100]], "states": states, "docs": docs, "hop_items": hop_items}
        hop_items.append((f, T.compare(cur, nxt, norm=None, edd=f.startswith("docstring"))))
        states.append({k: state_of(v) for k, v in nxt["params"].items()})
        docs.append({k: T.norm_doc(v.get("doc")) for k, v in nxt["params"].items()})
        cur = nxt
    return {"docs": docs, "states": states, "end": T.core(cur), "start": T.core(ir), "names_end": list(cur["params"]), "hop_items": hop_items}


def worker(batch):
    out = {"n": 0, "chains": 0, "items": [], "corr": [], "stable_chains": 0, "outside_model": 0, "compared": 0, "corpus_keys": []}
    for entry in batch:
        ir, stable, chains = entry[:3]
        cid = entry[3] if len(entry) > 3 else None
        out["n"] += 1
        results = [guarded(run_chain, (ir, ch), 60) for ch in chains]
        # model: per parameter, per chain
        queries, index = [], []
        for ci, ch in enumerate(chains):
            if "docstring+" in ch:
                continue        # not a format of Model/Norm.v
            for name, p in ir["params"].items():
                et = enc_typ(p["typ"])
                queries.append([list(ch), [et, enc_def(p)]])
                index.append((ci, name))
        models = call_many("norm_chain", queries)
        by = {}
        for (ci, name), m in zip(index, models):
            by[(ci, name)] = m
        for ci, (ch, (st, r)) in enumerate(zip(chains, results)):
            out["chains"] += 1
            tag = "-".join(ch)
            ckey = None if cid is None else "%s|%s" % (cid, tag)
            if ckey:
                out["corpus_keys"].append(ckey)
            if st != "ok":
                out["items"].append(("C03/harness/" + st, {"chain": ch, "detail": r, "corpus_key": ckey}, ir))
                continue
            for f, its in r["hop_items"]:
                for cls, det in its:
                    if cls.startswith("param/doc") or cls.startswith("returns"):
                        continue            # C03 compares names, order, types and defaults
                    if stable:
                        continue            # on the stable domain any difference is reported below, unconditionally
                    out["items"].append(("C03/hop-%s/%s" % (f, cls), dict(det, chain=ch, corpus_key=ckey), ir))
            if "raised" in r:
                out["items"].append(("C03/raises/%s/%s" % (r["raised"][0], r["raised"][1]), {"chain": ch, "detail": r["raised"], "corpus_key": ckey}, ir))
                continue
            # correspondence hop by hop
            # Model/Norm.v speaks about (type, default) of a parameter whose description is the plain one it started with; once a
            # hop has rewritten the description (e.g. left a "Defaults to" remark behind) later hops are outside the model
            rewritten = set()
            for hi, states in enumerate(r["states"]):
                for name in ir["params"]:
                    if r["docs"][hi].get(name) != T.norm_doc(ir["params"][name].get("doc")) or len(ir["params"][name].get("doc") or "") > 45:
                        rewritten.add(name)     # (a long description: the word wrapper may break inside the default -- not in the model)
                    if name in rewritten:
                        out["outside_model"] += 1
                        continue
                    if (ci, name) not in by:
                        continue
                    out["compared"] += 1
                    m = by[(ci, name)][hi]
                    got = states.get(name)
                    if m is not None and got != m:
                        out["corr"].append({"chain": ch[: hi + 1], "param": name, "start": ir["params"][name], "impl": got, "model": m})
            if stable:
                out["stable_chains"] += 1
                if r["end"] != r["start"]:
                    out["items"].append(("C03/stable-domain-drift", {"chain": ch, "start": r["start"], "end": r["end"], "corpus_key": ckey}, ir))
    return out


def collect(ctx, n_ir, n3):
    rng = ctx.rng
    all2 = [list(c) for c in itertools.product(FORMATS, repeat=2)]
    all3 = [list(c) for c in itertools.product(FORMATS, repeat=3)]
    work = []
    for i in range(n_ir):
        stable = i % 2 == 0
        ir = gen_ir(rng, stable)
        chains = all2 + rng.sample(all3, min(n3, len(all3)))
        chains += [[rng.choice(FORMATS), "docstring+", rng.choice(FORMATS)] for _ in range(3)]
        if not ctx.quick:
            chains += [[rng.choice(FORMATS) for _ in range(rng.randint(4, 5))] for _ in range(6)]
        work.append((ir, stable, chains))
    import random as _random
    crng = _random.Random(CORPUS_SEED)
    for i in range(60):
        ir_c = gen_ir(crng, False)
        if i < (6 if n_ir < 100 else 60):
            work.append((ir_c, False, all2, "c%d" % i))
    # corpus: negative numbers and None defaults on every kind of type, all chains of length 2 and 3
    from collections import OrderedDict
    corpus_ir = {"name": "Thing", "doc": "Thing description.", "returns": None, "params": OrderedDict((
        ("axis", {"typ": "int", "doc": "the value", "default": -1}),
        ("scale", {"typ": "Optional[float]", "doc": "size in bytes", "default": -3.0}),
        ("count", {"typ": "Optional[int]", "doc": "first item to use", "default": -5}),
        ("label", {"typ": "str", "doc": "extra flag", "default": "2"})))}
    work.append((corpus_ir, False, all2 + all3 + [["docstring+", f] for f in FORMATS] + [[g, "docstring+", f] for g in FORMATS for f in FORMATS]))
    # corpus (stable domain): Optional[bool] with a bool default, a name that is the suffix of its neighbour's name
    corpus_stable = {"name": "Thing", "doc": "Thing description.", "returns": None, "params": OrderedDict((
        ("size", {"typ": "int", "doc": "the value", "default": 5}),
        ("batch_size", {"typ": "int", "doc": "size in bytes", "default": 42}),
        ("shuffle", {"typ": "Optional[bool]", "doc": "extra flag", "default": True}),
        ("verbose", {"typ": "Optional[bool]", "doc": "first item to use", "default": False}),
        ("rate", {"typ": "Optional[float]", "doc": "base directory", "default": 0.5})))}
    work.append((corpus_stable, True, all2 + all3))
    # sweep: a string default with a blank inside, behind descriptions of every length around the wrap column, so that the word wrapper
    # of the docstring hop breaks the "Defaults to ..." sentence before, inside and after the quoted default
    for L in range(52, 72):
        doc = ("the optimiser that is used when nothing else has been configured by the caller " * 2)[:L].rstrip()
        sweep_ir = {"name": "Thing", "doc": "Thing description.", "returns": None, "params": OrderedDict((
            ("optimizer", {"typ": "str", "doc": doc, "default": "adam w"}), ("last", {"typ": "int", "doc": "the value", "default": 5})))}
        work.append((sweep_ir, False, [["class", "docstring", "class"], ["docstring", "function"], ["function", "docstring"], ["docstring+", "class"]]))
    agg = {"n": 0, "chains": 0, "stable_chains": 0, "outside_model": 0, "compared": 0}
    items, corr = [], []
    for r in run_cases(worker, [[w] for w in work], chunk=1):
        if "harness_error" in r:
            items.append(("C03/harness/error", {"detail": r}, None))
            continue
        for k in ("n", "chains", "stable_chains", "outside_model", "compared"):
            agg[k] += r[k]
        agg.setdefault("corpus_keys", []).extend(r.get("corpus_keys", []))
        items += r["items"]
        corr += r["corr"][:3]
    return agg, items, corr, work


def run(ctx):
    status = coqbuild.prove("C03", THEOREMS)
    agg, items, corr, work = collect(ctx, 12 if ctx.quick else 300, 40 if ctx.quick else 125)
    for cls, det, ir in items:
        ctx.item(cls, {"stage": "implementation chains (emit -> text -> parse at each hop)", "clause": cls, "input": T.jsonable(ir) if ir else None,
                       "detail": det}, corpus_key=det.get("corpus_key") if isinstance(det, dict) else None)
    # Model/ArgRead.v (C03_argparse_row_derived) against parse_out_param
    n_arg, arg_bad = argtie.compare([argtie.gen(ctx.rng) for _ in range(300 if ctx.quick else 8000)])
    corr = list(corr) + arg_bad[:3]
    if not ctx.violations:
        if corr:
            ctx.violation({"stage": "correspondence: Model/Norm.v N vs one implementation hop; Model/ArgRead.v vs the argparse reader", "detail": corr[:3],
                           "n_disagreements": len(corr)}, no_input=True)
        elif not status["ok"]:
            ctx.violation({"stage": "proof", "theorem": status.get("failing_theorem"),
                           "status": {k: status[k] for k in ("theorems", "forbidden", "build_log") if k in status}}, no_input=True)
    cov = {
        "obligations": status["obligations"], "discharged": status["discharged"],
        "checker_cmd": coqbuild.CHECKER_CMD.replace("<id>", "C03"), "theorems": status["theorems"],
        "trusted_base": GLOBAL_TRUSTED_BASE + [
            "Model/Norm.v is a table of the per-format normal form of (type, default) measured on the code and kept honest by hop-by-hop "
            "comparison on every run; it does not derive the normal form from the emitters/parsers (that is C01/C02's subject)"],
        "evaluations": agg["chains"], "distinct_nontrivial": agg["chains"],
        "rule": "IRs over the common domain (scalar, Optional[scalar], Literal[str..]; half of them in the stable domain dom03) x all 25 "
                "chains of length 2 + %s chains of length 3 (+ length 4-5 in the thorough tier) over {class, pydantic, function, argparse, "
                "docstring-rest}; every hop emits, renders to text, re-reads and parses" % ("a sample of 40" if ctx.quick else "all 125"),
        "interfaces": agg["n"], "chains": agg["chains"], "chains_on_stable_domain": agg["stable_chains"],
        "model_disagreements": len(corr), "traces_validated_against_impl": agg["chains"],
        "parameter_states_compared_with_model": agg["compared"],
        "parameter_states_outside_model_description_rewritten": agg["outside_model"],
        "samples": [T.jsonable(work[0][0]), work[0][2][7]],
        "build": {k: status[k] for k in ("build_s", "forbidden")},
    }
    return ctx.finish("proof", cov, assumptions=["descriptions and return entries are outside C03's comparison"])


def replay(ctx, payload):
    return run(ctx)
