"""C04 -- emitted code runs and exposes exactly the described interface."""
import argparse
import ast
import contextlib
import copy
import inspect
import io
import re

from .. import coqbuild, irtools as T
from ..common import CORPUS_SEED, GLOBAL_TRUSTED_BASE
from ..model import call_many
from ..normtools import enc_def, enc_typ
from ..pool import guarded, run_cases

THEOREMS = ["C04_function_signature", "C04_argparse_defaults_partial", "C04_argparse_refuted_required", "C04_signature_example", "C04_class_body_carries", "C04_class_body_example"]
STYLES = ("rest", "google", "numpydoc")
PRELUDE = "from typing import *\nimport typing\n"


def described_default(p):
    if "default" not in p:
        return T._ABSENT
    return None if p["default"] == T.NoneStr else p["default"]


def gen_ir(rng):
    """executable domain: types resolvable from typing + builtins, literal defaults"""
    from collections import OrderedDict
    n = rng.randint(1, 6)
    names = rng.sample(T.NAMES, n)
    kdef = rng.randint(0, n)
    params = OrderedDict()
    for i, nm in enumerate(names):
        k = rng.random()
        base = rng.choice(T.SCALARS)
        if k < 0.4:
            t = base
        elif k < 0.65:
            t = "Optional[%s]" % base
        elif k < 0.8:
            kind = rng.random()
            mem = ["'a'", "'b'", "'c'"] if kind < 0.6 else (["0", "1", "2"] if kind < 0.8 else ["''", "'.bak'"])
            t = "Literal[%s]" % ", ".join(rng.sample(mem, rng.randint(2, len(mem))) if kind < 0.6 else mem)
            if rng.random() < 0.3:
                t = "Optional[%s]" % t
        else:
            t = rng.choice(["List[str]", "Union[int, float]", "dict"])
        p = {"typ": t, "doc": rng.choice(T.PLAIN_DOCS)}
        if i >= n - kdef:
            inner = t[9:-1] if t.startswith("Optional[") else t
            if t.startswith("Optional[") and rng.random() < 0.4:
                p["default"] = T.NoneStr
            elif inner.startswith("Literal["):
                p["default"] = ast.literal_eval(inner[len("Literal["):-1].split(",")[0].strip())
            elif inner in T.SCALARS:
                p["default"] = {"int": rng.choice([0, 5, -3]), "float": rng.choice([0.5, -1.5]), "str": rng.choice(["x", "a b", "hello", "{}", "[a-z]", "(none)", ",", "->", "%s", "1", "None", "True", "a.b", "it's"]),
                                "bool": rng.choice([True, False])}[inner]
            elif rng.random() < 0.5 and t.startswith("Optional["):
                p["default"] = T.NoneStr
        params[nm] = p
    return {"name": "Thing", "doc": "Thing description.", "params": params, "returns": None}


def eval_typ(t, ns):
    try:
        return eval(t, ns)
    except Exception:  # noqa
        return ("unevaluable", t)


def check_case(ir):
    import cdd.argparse_function.emit, cdd.class_.emit, cdd.function.emit, cdd.pydantic.emit
    from cdd.shared.source_transformer import to_code

    items, nexec = [], [0]
    base_ns = {}
    exec(PRELUDE, base_ns)

    def emit(em, desc, **kw):
        with contextlib.redirect_stderr(io.StringIO()):
            return to_code(em(desc, **kw))

    def obs_class(src, fmt, tag):
        tree = ast.parse(src)
        if ast.dump(ast.parse(ast.unparse(tree))) != ast.dump(tree):
            items.append(("C04/%s/unparse-reparse" % tag, {"source": src[:200]}))
        src_x = src.replace("(BaseModel)", "(object)") if fmt == "pydantic" else src   # pydantic-shaped class; BaseModel itself is third-party
        ns = dict(base_ns)
        try:
            exec(compile(src_x, "<emitted %s>" % fmt, "exec"), ns)
            nexec[0] += 1
        except Exception as e:  # noqa
            items.append(("C04/%s/does-not-run/%s" % (tag, type(e).__name__), {"error": str(e)[:100], "source": src[:300]}))
            return
        cls = ns.get("Thing") or next((v for k, v in ns.items() if inspect.isclass(v) and v.__module__ == "builtins" and k not in base_ns), None)
        if cls is None:
            items.append(("C04/%s/class-not-defined" % tag, {"source": src[:200]}))
            return
        anns = getattr(cls, "__annotations__", {})
        for name, p in ir["params"].items():
            want = described_default(p)
            if want is T._ABSENT:
                if hasattr(cls, name):
                    got = getattr(cls, name)
                    items.append(("C04/%s/attr-default-invented/%s->%s" % (tag, typ_head(p["typ"]), T.kind_of_default(got)),
                                  {"param": name, "typ": p["typ"], "got": repr(got)}))
            else:
                if not hasattr(cls, name):
                    items.append(("C04/%s/attr-default-missing/%s" % (tag, T.kind_of_default(p["default"])),
                                  {"param": name, "typ": p["typ"], "default": repr(want)}))
                elif getattr(cls, name) != want or type(getattr(cls, name)) != type(want):
                    items.append(("C04/%s/attr-default-differs/%s->%s" % (tag, T.kind_of_default(p["default"]),
                                                                          T.kind_of_default(getattr(cls, name))),
                                  {"param": name, "typ": p["typ"], "default": repr(want), "got": repr(getattr(cls, name))}))
            if name in anns:
                if eval_typ(p["typ"], dict(base_ns)) != anns[name]:
                    items.append(("C04/%s/annotation-differs/%s" % (tag, typ_head(p["typ"])),
                                  {"param": name, "typ": p["typ"], "got": repr(anns[name])}))
            else:
                items.append(("C04/%s/annotation-missing/%s" % (tag, typ_head(p["typ"])), {"param": name, "typ": p["typ"]}))

    def obs_function(src, tag, kwonly):
        try:
            ns = dict(base_ns)
            exec(compile(src, "<emitted function>", "exec"), ns)
            nexec[0] += 1
        except Exception as e:  # noqa
            items.append(("C04/%s/does-not-run/%s" % (tag, type(e).__name__), {"error": str(e)[:100]}))
            return
        sig = inspect.signature(ns["thing"])
        got = [(k, v.default) for k, v in sig.parameters.items()]
        want = [(k, (None if described_default(p) is T._ABSENT else described_default(p))) for k, p in ir["params"].items()
                if not k.endswith("kwargs")]
        if [g[0] for g in got] != [w[0] for w in want]:
            items.append(("C04/%s/signature-names" % tag, {"got": [g[0] for g in got], "want": [w[0] for w in want]}))
        else:
            for (k, g), (_k, w_) in zip(got, want):
                if g != w_ or type(g) != type(w_):
                    items.append(("C04/%s/signature-default/%s->%s" % (tag, T.kind_of_default(w_), T.kind_of_default(g)),
                                  {"param": k, "want": repr(w_), "got": repr(g)}))
        kinds = {v.kind for v in sig.parameters.values()}
        if kwonly and kinds - {inspect.Parameter.KEYWORD_ONLY}:
            items.append(("C04/%s/not-keyword-only" % tag, {"kinds": [str(k) for k in kinds]}))

    def obs_argparse(src, tag, edd):
        try:
            ns = dict(base_ns)
            exec(compile(src, "<emitted argparse>", "exec"), ns)
            ap = argparse.ArgumentParser(prog="x")
            ns["set_cli_args"](ap)
            nexec[0] += 1
        except BaseException as e:  # noqa
            items.append(("C04/%s/does-not-run/%s" % (tag, type(e).__name__), {"error": str(e)[:100]}))
            return
        acts = {a.dest: a for a in ap._actions if a.dest != "help"}
        if sorted(acts) != sorted(ir["params"]):
            items.append(("C04/%s/options-differ" % tag, {"got": sorted(acts), "want": sorted(ir["params"])}))
            return
        all_optional_or_defaultless = True
        for name, p in ir["params"].items():
            a = acts[name]
            th = typ_head(p["typ"])
            inner = p["typ"][9:-1] if p["typ"].startswith("Optional[") else p["typ"]
            if inner.startswith("Literal["):
                members = list(ast.literal_eval("(" + inner[len("Literal["):-1] + ",)"))
                if a.choices is None or list(a.choices) != members:
                    items.append(("C04/%s/choices" % tag, {"param": name, "typ": p["typ"], "got": repr(a.choices)}))
            want_d = described_default(p)
            want_d = None if want_d is T._ABSENT else want_d
            if a.default != want_d or type(a.default) != type(want_d):
                items.append(("C04/%s/default/%s->%s" % (tag, T.kind_of_default(want_d), T.kind_of_default(a.default)),
                              {"param": name, "typ": p["typ"], "want": repr(want_d), "got": repr(a.default)}))
            conv = {"int": int, "float": float, "bool": bool, "str": None}.get(inner, "?")
            if conv != "?" and a.type is not conv and not (conv is None and a.type is str):
                items.append(("C04/%s/type/%s" % (tag, th), {"param": name, "typ": p["typ"], "got": repr(a.type)}))
            if (a.help or "") and T.norm_doc(a.help, edd) != T.norm_doc(p.get("doc"), edd):
                items.append(("C04/%s/help" % tag, {"param": name, "want": p.get("doc"), "got": a.help}))
            # the described interface: required iff there is no default and the type is not Optional
            want_req = ("default" not in p) and not p["typ"].startswith("Optional[")
            if a.required != want_req:
                items.append(("C04/%s/required/%s/%s/want-%s" % (tag, "Optional" if p["typ"].startswith("Optional[") else th,
                                                               "default" if "default" in p else "nodefault", want_req),
                              {"param": name, "typ": p["typ"], "has_default": "default" in p, "required": a.required}))
            if want_req:
                all_optional_or_defaultless = False
        if all_optional_or_defaultless:
            try:
                with contextlib.redirect_stderr(io.StringIO()):
                    got = vars(ap.parse_args([]))
                want = {k: (None if described_default(p) is T._ABSENT else described_default(p)) for k, p in ir["params"].items()}
                if got != want:
                    items.append(("C04/%s/parse_args-defaults" % tag, {"got": repr(got), "want": repr(want)}))
            except SystemExit:
                items.append(("C04/%s/parse_args-exits-although-every-option-has-a-default" % tag, {"params": T.jsonable(ir)["params"]}))

    for style in STYLES:
        for edd in (False, True):
            fresh = {}
            # ---- class
            for fmt, em in (("class", cdd.class_.emit.class_), ("pydantic", cdd.pydantic.emit.pydantic)):
                tag = "%s/%s" % (fmt, style)
                try:
                    src = emit(em, copy.deepcopy(ir), docstring_format=style, emit_default_doc=edd)
                except Exception as e:  # noqa
                    items.append(("C04/%s/emit-raises/%s" % (tag, type(e).__name__), {"error": str(e)[:100]}))
                    continue
                fresh[fmt] = src
                obs_class(src, fmt, tag)
            # ---- function
            for kwonly in (True, False):
                tag = "function%s/%s" % ("" if kwonly else "-pos", style)
                try:
                    src = emit(cdd.function.emit.function, copy.deepcopy(ir), function_name="thing", function_type="static",
                               docstring_format=style, emit_default_doc=edd, emit_as_kwonlyargs=kwonly)
                except Exception as e:  # noqa
                    items.append(("C04/%s/does-not-run/%s" % (tag, type(e).__name__), {"error": str(e)[:100]}))
                    continue
                if kwonly:
                    fresh["function"] = src
                obs_function(src, tag, kwonly)
            # ---- argparse
            tag = "argparse/%s" % style
            try:
                src = emit(cdd.argparse_function.emit.argparse_function, copy.deepcopy(ir), docstring_format=style, emit_default_doc=edd)
            except BaseException as e:  # noqa
                items.append(("C04/%s/does-not-run/%s" % (tag, type(e).__name__), {"error": str(e)[:100]}))
                src = None
            if src is not None:
                fresh["argparse"] = src
                obs_argparse(src, tag, edd)
            # ---- ONE description handed to the argparse, class and function emitters in turn (what `cdd sync` does with the truth's
            # description): the program each of them writes is held to the same property; it is re-examined when it is not the text
            # written from a fresh copy
            shared = copy.deepcopy(ir)
            for fmt, call in (("argparse", lambda d: emit(cdd.argparse_function.emit.argparse_function, d, docstring_format=style, emit_default_doc=edd)),
                              ("class", lambda d: emit(cdd.class_.emit.class_, d, docstring_format=style, emit_default_doc=edd)),
                              ("function", lambda d: emit(cdd.function.emit.function, d, function_name="thing", function_type="static",
                                                          docstring_format=style, emit_default_doc=edd, emit_as_kwonlyargs=True))):
                if fmt not in fresh:
                    break
                tag = "%s/%s/description-already-read-by-another-emitter" % (fmt, style)
                try:
                    src = call(shared)
                except BaseException as e:  # noqa
                    items.append(("C04/%s/emit-raises/%s" % (tag, type(e).__name__), {"error": str(e)[:100]}))
                    break
                if src != fresh[fmt]:
                    if fmt == "argparse":
                        obs_argparse(src, tag, edd)
                    elif fmt == "class":
                        obs_class(src, fmt, tag)
                    else:
                        obs_function(src, tag, True)
    return items, nexec[0]


def typ_head(t):
    t2 = t[9:-1] if t.startswith("Optional[") else t
    return re.match(r"[A-Za-z_.]*", t2).group(0) or "?"


def action_obs(ir):
    """live ArgumentParser actions for the modelled (common-domain) parameters, rest style"""
    import cdd.argparse_function.emit
    from cdd.shared.source_transformer import to_code
    with contextlib.redirect_stderr(io.StringIO()):
        node = cdd.argparse_function.emit.argparse_function(copy.deepcopy(ir))
    ns = {}
    exec(PRELUDE + to_code(node), ns)
    ap = argparse.ArgumentParser(prog="x")
    ns["set_cli_args"](ap)
    out = {}
    for a in ap._actions:
        if a.dest in ir["params"]:
            out[a.dest] = [getattr(a.type, "__name__", None) if a.type is not str else None,
                           [str(c) for c in a.choices] if a.choices is not None else None, enc_def({"default": a.default}) if a.default is not None else None,
                           a.required]
    return out


def worker(batch):
    out = {"n": 0, "exec": 0, "items": [], "corr": [], "corpus_keys": []}
    for ir in batch:
        cid = None
        if isinstance(ir, tuple):       # an entry of the fixed corpus
            cid, ir = ir
            out["corpus_keys"].append(cid)
        out["n"] += 1
        st, v = guarded(check_case, ir, 120)
        if st != "ok":
            out["items"].append(("C04/harness/" + st, {"detail": v, "corpus_key": cid}, ir))
            continue
        items, nexec = v
        out["exec"] += nexec
        for cls, det in items:
            out["items"].append((cls, dict(det, corpus_key=cid) if isinstance(det, dict) else det, ir))
        # model correspondence: argparse actions
        names, qs = [], []
        for name, p in ir["params"].items():
            et = enc_typ(p["typ"])
            if et is not None and not (isinstance(et[1], list) and not all(isinstance(m, str) and m for m in et[1])):
                if "Literal[0" in p["typ"] or "''" in p["typ"]:
                    continue
                names.append(name)
                qs.append([et, enc_def(p)])
        if qs:
            st2, obs = guarded(action_obs, ir, 30)
            if st2 == "ok":
                for name, m in zip(names, call_many("argparse_action", qs)):
                    if name in obs and obs[name] != m:
                        out["corr"].append({"param": name, "start": ir["params"][name], "impl": obs[name], "model": m})
    return out


def collect(ctx, n_ir, _unused=0):
    rng = ctx.rng
    irs = [gen_ir(rng) for _ in range(n_ir)]

    # corpus: `str` / a string Literal nested two levels deep in the type, with a string default (whether the default is written as a
    # string constant is decided by looking for `str` INSIDE the type)
    from collections import OrderedDict
    for typ, dflt in (("Optional[Literal['train', 'eval']]", "train"), ("Optional[Union[int, str]]", "max"), ("Union[int, Optional[str]]", "a b"),
                      ("Dict[str, Optional[str]]", T.NoneStr)):
        irs.append({"name": "Thing", "doc": "Thing description.", "returns": None,
                    "params": OrderedDict((("alpha", {"typ": "int", "doc": "the value", "default": 5}), ("mode", {"typ": typ, "doc": "first item to use", "default": dflt})))})
    import random as _random
    crng = _random.Random(CORPUS_SEED)
    corpus_irs = [("c%d" % i, gen_ir(crng)) for i in range(300)]
    irs_all = corpus_irs[: (20 if n_ir < 200 else 300)] + irs
    agg = {"n": 0, "exec": 0}
    items, corr = [], []
    for r in run_cases(worker, [irs_all[i:i + 5] for i in range(0, len(irs_all), 5)], chunk=1):
        if "harness_error" in r:
            items.append(("C04/harness/error", {"detail": r}, None))
            continue
        for k in [k_ for k_ in agg if k_ != "corpus_keys"]:
            agg[k] += r[k]
        agg.setdefault("corpus_keys", []).extend(r.get("corpus_keys", []))
        items += r["items"]
        corr += r["corr"][:3]
    return agg, items, corr, irs


def run(ctx):
    status = coqbuild.prove("C04", THEOREMS)
    agg, items, corr, irs = collect(ctx, 50 if ctx.quick else 2100)
    # Model/ClassFmt.v (C04_class_body_carries) against the class / pydantic emitters: docstring, annotated assignments, parse back
    from . import c02 as _c02
    n_cls, cls_bad = _c02.cls_compare([_c02.cls_case(ctx.rng) for _ in range(120 if ctx.quick else 4000)])
    del _c02.PROP_ITEMS[:]
    corr += [dict(b, stage="Model/ClassFmt.v vs the class emitter") for b in cls_bad[:3]]
    agg["classes_compared_with_model"] = n_cls
    for cls, det, ir in items:
        ctx.item(cls, {"stage": "exec() of the emitted source in a scratch namespace", "clause": cls, "input": T.jsonable(ir) if ir else None,
                       "detail": det}, corpus_key=det.get("corpus_key") if isinstance(det, dict) else None)
    if not ctx.violations:
        if corr:
            ctx.violation({"stage": "correspondence: Model/Exec.v argparse_action vs live ArgumentParser", "detail": corr[:3],
                           "n_disagreements": len(corr)}, no_input=True)
        elif not status["ok"]:
            ctx.violation({"stage": "proof", "theorem": status.get("failing_theorem"),
                           "status": {k: status[k] for k in ("theorems", "forbidden", "build_log") if k in status}}, no_input=True)
    cov = {
        "obligations": status["obligations"], "discharged": status["discharged"],
        "checker_cmd": coqbuild.CHECKER_CMD.replace("<id>", "C04"), "theorems": status["theorems"],
        "trusted_base": GLOBAL_TRUSTED_BASE + [
            "CPython is the oracle for what emitted code exposes (inspect.signature, class attributes, ArgumentParser._actions, "
            "parse_args([])); the model covers the signature and the argparse action table only; pydantic's BaseModel is replaced by "
            "object when executing the pydantic-shaped class"],
        "evaluations": agg["exec"], "distinct_nontrivial": agg["n"],
        "rule": "IRs of the executable domain (scalars, Optional, Literal incl. int and empty-string members, List/Union/dict; literal "
                "defaults) x {class, pydantic-shaped class, function kw-only/positional, argparse} x 3 docstring styles x emit_default_doc; "
                "every emitted source is compiled and exec()ed and the live objects compared with the description",
        "interfaces": agg["n"], "sources_executed": agg["exec"], "model_disagreements": len(corr),
        "traces_validated_against_impl": agg["exec"],
        "samples": [T.jsonable(irs[0])],
        "build": {k: status[k] for k in ("build_s", "forbidden")},
    }
    return ctx.finish("proof", cov, assumptions=["Python semantics beyond signature / attributes / ArgumentParser actions are not modelled"])


def replay(ctx, payload):
    return run(ctx)
