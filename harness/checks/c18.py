"""C18 -- every public module imports on its own and in any order."""
import itertools
import json
import os
import subprocess
import sys

from .. import coqbuild
from ..common import GLOBAL_TRUSTED_BASE, REPO
from ..coqeval import coq_eval, parse_pos_lists
from ..pool import run_cases

THEOREMS = ["C18_single", "C18_pairs", "C18_nonempty"]
PY = sys.executable

NAMES_SNIPPET = (
    "import sys,json\n"
    "print('@@'+json.dumps({m:sorted(n for n in vars(sys.modules[m]) if not n.startswith('_')) "
    "for m in sorted(sys.modules) if m=='cdd' or m.startswith('cdd.')}))\n"
)


def real_import(seq):
    """Fresh interpreter: import the modules of seq in order; returns (ok, names-json or error tail)."""
    code = "".join("import %s\n" % m for m in seq) + NAMES_SNIPPET
    env = dict(os.environ, PYTHONPATH=REPO, PYTHONHASHSEED="0", PYTHONDONTWRITEBYTECODE="1")
    p = subprocess.run([PY, "-W", "ignore", "-c", code], stdout=subprocess.PIPE, stderr=subprocess.PIPE, text=True,
                       env=env, cwd="/", timeout=300)
    if p.returncode != 0:
        tail = [l for l in p.stderr.strip().splitlines() if "conda" not in l.lower()]
        return False, (tail[-1] if tail else "exit %d" % p.returncode)
    names = [l for l in p.stdout.splitlines() if l.startswith("@@")]
    return True, names[-1][2:] if names else ""


def single_worker(m):
    ok, info = real_import([m])
    return {"m": m, "ok": ok, "info": info if not ok else None}


def pair_worker(ab):
    a, b = ab
    ok1, n1 = real_import([a, b])
    ok2, n2 = real_import([b, a])
    return {"pair": [a, b], "ok1": ok1, "ok2": ok2, "same": ok1 and ok2 and n1 == n2,
            "info": None if (ok1 and ok2 and n1 == n2) else [n1[-300:], n2[-300:]]}


def model_verdicts(meta, want_pairs):
    hdr = ("From Coq Require Import List PArith Bool.\nImport ListNotations.\n"
           "From CDD Require Import ImportSem ImportGraph.\n"
           "Definition fuel : nat := 4 * n_modules.\n"
           "Definition single (m : list positive) : bool := single_ok modules root_name root_mod fuel m.\n"
           "Definition pair (ab : list positive * list positive) : bool := pair_ok modules root_name root_mod fuel ab.\n")
    terms = [("singles", "filter (fun m => negb (single m)) public")]
    if want_pairs:
        terms.append(("pairs", "map (fun ab => fst ab ++ 1%positive :: snd ab) (filter (fun ab => negb (pair ab)) (list_prod public public))"))
    res, rc, out = coq_eval(hdr, terms, "C18")
    by_chain = {}
    for m, i in meta["module_ids"].items():
        by_chain[i] = m
    fails = None
    if "singles" in res:
        fails = sorted(by_chain.get(c[-1], "?%s" % c) for c in parse_pos_lists(res["singles"]) if c)
    pfails = None
    if "pairs" in res:
        pfails = []
        root = 1
        for c in parse_pos_lists(res["pairs"]):
            # chains start with the root id; split at the second occurrence of the root id
            idx = [k for k, x in enumerate(c) if x == root]
            if len(idx) >= 2:
                a, b = c[: idx[1]], c[idx[1]:]
                pfails.append((by_chain.get(a[-1], "?"), by_chain.get(b[-1], "?")))
    return fails, pfails, (out[-1500:] if rc else "")


def run(ctx):
    status = coqbuild.prove("C18", THEOREMS)
    meta = status["gen"].get("imports", {})
    public = meta.get("public_names", [])
    proved = status["ok"]
    model_fail, model_pfail, diag_err = model_verdicts(meta, want_pairs=not proved)
    # --- real interpreters: every single
    singles = list(run_cases(single_worker, public, chunk=2))
    real_fail = sorted(r["m"] for r in singles if not r.get("ok"))
    info = {r["m"]: r.get("info") for r in singles if not r.get("ok")}
    # --- pairs
    good = [m for m in public if m not in real_fail]
    allpairs = [(a, b) for a in good for b in good if a < b]
    if ctx.quick:
        pairs = ctx.rng.sample(allpairs, min(150, len(allpairs)))
    else:
        pairs = allpairs
    if model_pfail:
        extra = [tuple(sorted(p)) for p in model_pfail if p[0] in good and p[1] in good and p[0] != p[1]]
        pairs = list(dict.fromkeys(extra[:200] + pairs))
    pres = list(run_cases(pair_worker, pairs, chunk=2))
    pair_bad = [r for r in pres if not r.get("same")]
    # --- verdicts
    for m in real_fail[:10]:
        ctx.violation({"stage": "fresh interpreter", "input": {"import_first": m}, "error": info[m],
                       "clause": "importing a single public module in a fresh interpreter fails",
                       "replay_cmd": "cd / && PYTHONPATH=%s %s -c 'import %s'" % (REPO, PY, m)})
    for r in pair_bad[:10]:
        a, b = r["pair"]
        ctx.violation({"stage": "fresh interpreters, both orders", "input": {"pair": [a, b]}, "detail": r.get("info"),
                       "clause": "importing two public modules fails in one order or leaves different public names bound",
                       "replay_cmd": "cd / && PYTHONPATH=%s %s -c 'import %s; import %s'  # and the other order" % (REPO, PY, a, b)})
    corr_mismatch = None
    if model_fail is not None and sorted(model_fail) != real_fail:
        corr_mismatch = {"model_says_fail": model_fail, "real_fail": real_fail}
    if not real_fail and not pair_bad:
        if not proved:
            ctx.violation({"stage": "proof", "theorem": status.get("failing_theorem"),
                           "model_failing_singles": model_fail, "model_failing_pairs": (model_pfail or [])[:20],
                           "note": "the import-semantics theorem no longer checks on the regenerated module graph but every "
                                   "real import tried succeeded", "status": {k: status[k] for k in ("theorems", "forbidden", "build_log") if k in status}},
                          no_input=True)
        elif corr_mismatch:
            ctx.violation({"stage": "translator validation: model verdicts vs real imports", "detail": corr_mismatch}, no_input=True)
    cov = {
        "obligations": status["obligations"], "discharged": status["discharged"],
        "checker_cmd": coqbuild.CHECKER_CMD.replace("<id>", "C18"),
        "trusted_base": GLOBAL_TRUSTED_BASE + [
            "translate/imports.py (module-level statements of every module -> Gen/ImportGraph.v), validated on every run by "
            "comparing the model's verdict for each public module with a fresh `python -c 'import m'`",
            "the import protocol as formalised in Model/ImportSem.v (sys.modules, partially initialised modules, "
            "parent-attribute binding after load); third-party/stdlib modules assumed importable"],
        "theorems": status["theorems"],
        "evaluations": len(singles) + 2 * len(pres),
        "distinct_nontrivial": len(singles) + len(pres),
        "rule": "one fresh interpreter per public module, two per unordered pair (both orders, all public names of all "
                "loaded cdd modules compared); each is a distinct case",
        "modules_in_graph": meta.get("modules"), "public_modules": len(public), "statements": meta.get("statements"),
        "translator_unsupported": meta.get("unsupported"),
        "real_single_failures": real_fail, "model_single_failures": model_fail,
        "pairs_tried": len(pres), "pairs_possible": len(allpairs), "real_pair_failures": len(pair_bad),
        "exhaustive": (not ctx.quick),
        "exhaustive_scope": "Coq: all %d singles and all %d ordered pairs decided by vm_compute in both tiers; real interpreters: "
                            "all singles, %s pairs" % (len(public), len(public) ** 2, "sampled" if ctx.quick else "all unordered"),
        "samples": [{"import": public[len(public) // 2] if public else None}, {"pair": list(pairs[0]) if pairs else None}],
        "build": {k: status[k] for k in ("build_s", "forbidden")},
    }
    return ctx.finish("proof", cov, assumptions=[
        "function bodies are not entered by the import model (module-level calls into partially initialised modules are "
        "covered only by the real-interpreter validation)"])


def replay(ctx, payload):
    inp = payload.get("input") or {}
    if "import_first" in inp:
        ok, info = real_import([inp["import_first"]])
        print("import", inp["import_first"], "->", "ok" if ok else info)
        return 0 if ok else 1
    if "pair" in inp:
        r = pair_worker(tuple(inp["pair"]))
        print(r)
        return 0 if r["same"] else 1
    return run(ctx)
