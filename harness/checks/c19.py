"""C19 -- gen writes a valid module that exports exactly what it generated, and never overwrites."""
import ast
import os
import shutil
import tempfile

from .. import coqbuild
from ..common import GLOBAL_TRUSTED_BASE
from ..fsobs import run_observed, snapshot
from ..model import call_many
from ..pool import run_cases

THEOREMS = ["C19_guard_sound", "C19_guard", "C19_guard_args", "C19_all_exact", "C19_symbols_defined",
            "C19_reorder_keeps_everything", "C19_example", "C19_sanitised_name_chars", "C19_sanitised_name_refuted", "C19_infer_model_wherever_base_stands", "C19_infer_plain_class", "C19_infer_examples"]

EMITS = ["class", "function", "argparse", "json_schema", "pydantic", "sqlalchemy", "sqlalchemy_table", "sqlalchemy_hybrid"]
# (valid identifiers that are soft keywords / builtins / lower case included: the symbol name and the __all__ entry are computed at two sites)
NAMES = ["Alpha", "Beta", "Gamma", "Delta", "Omega", "match", "case", "type", "print", "record2"]
TPLS = [("", ""), ("", "Gen"), ("Pre", ""), ("My", "Config")]
ATTRS = [("x", "int", "5"), ("name", "str", '"n"'), ("flag", "bool", "True"), ("ratio", "float", "0.5"),
         ("maybe", "Optional[int]", "None"), ("kind", "Literal['a', 'b']", '"a"'), ("items", "List[str]", "None")]


def gen_input(rng, with_typing):
    names = rng.sample(NAMES, rng.randint(1, 5))
    src = '"""input module"""\n\nfrom typing import List, Literal, Optional\n\n\n'
    entries = []
    for n in names:
        pool = ATTRS if with_typing else ATTRS[:4]
        attrs = rng.sample(pool, rng.randint(1, min(4, len(pool))))
        if with_typing == "uniform":   # every entry needs exactly `from typing import Optional`
            attrs = rng.sample(ATTRS[:4], rng.randint(1, 3)) + [ATTRS[4]]
        if "sql" == with_typing:
            attrs = [a for a in attrs if a[0] not in ("items",)] or [ATTRS[0]]
        doc = "\n    %s description\n\n" % n + "".join("    :cvar %s: the %s\n" % (a[0], a[0]) for a in attrs)
        body = "".join("    %s: %s = %s\n" % a for a in attrs)
        src += 'class %s(object):\n    """%s    """\n\n%s\n\n' % (n, doc, body)
        entries.append((n, [a[0] for a in attrs]))
    return src, entries


# what --prepend carries: a statement; text that merely MENTIONS typing names; an import of a name that CONTAINS a typing name;
# a __future__ import next to a plain import
PREPENDS = ["PREPENDED = True\n", '"""Optional settings; Listing of the Union members"""\n', "from typing import NamedTuple, OrderedDict  # Optional extras\n",
            "from __future__ import annotations\nimport os\n", "from __future__ import annotations\nfrom . import sibling\n"]


def top_level_symbols(tree):
    out = []
    for node in tree.body:
        if isinstance(node, (ast.FunctionDef, ast.AsyncFunctionDef, ast.ClassDef)):
            out.append(node.name)
        elif isinstance(node, (ast.Assign, ast.AnnAssign)):
            tg = node.targets if isinstance(node, ast.Assign) else [node.target]
            for t in tg:
                if isinstance(t, ast.Name) and t.id != "__all__":
                    out.append(t.id)
    return out


def case_worker(case):
    seed, opts = case
    import random
    rng = random.Random(seed)
    root = tempfile.mkdtemp(prefix="verif-c19-")
    res = {"seed": seed, "opts": opts, "problems": []}
    try:
        tree = os.path.join(root, "tree")
        work = os.path.join(root, "work")
        os.makedirs(tree), os.makedirs(work)
        src, entries = gen_input(rng, opts["typing"])
        inp = os.path.join(tree, "input_mod.py")
        open(inp, "w").write(src)
        if opts.get("sql_input"):
            # declarative SQLAlchemy models (Base imported, not assigned) in both base orders, read with --parse infer
            cols = [("ident", "Integer", "primary key", "primary_key=True"), ("score", "Float", "the score", "nullable=False"),
                    ("active", "Boolean", "is active", "default=True")]
            mods = [("Plain", "Base"), ("User", opts["sql_input"])]
            src = "from sqlalchemy import Boolean, Column, Float, Integer\n\nfrom myapp.db import Base\n\n\nclass TimestampMixin(object):\n" \
                  "    \"\"\"\n    Shared bookkeeping\n\n    :cvar revision: revision counter\n    \"\"\"\n\n    revision: int = 0\n\n\n"
            for nm, bases in mods:
                src += "class %s(%s):\n    \"\"\"\n    A %s\n\n%s    \"\"\"\n\n    __tablename__ = \"%s\"\n\n%s\n\n" % (
                    nm, bases, nm, "".join("    :cvar %s: %s\n" % (c[0], c[2]) for c in cols), nm.lower(),
                    "".join("    %s = Column(%s, doc=\"%s\", %s)\n" % c for c in cols))
            open(inp, "w").write(src)
            entries = [("TimestampMixin", ["revision"])] + [(nm, [c[0] for c in cols]) for nm, _b in mods]
        if opts.get("json_input"):
            # the input mapping is one JSON-schema document (explicit --parse json_schema), under a .json or another extension
            import json as _json
            inp = os.path.join(tree, opts["json_input"])
            _json.dump({"$id": "https://example.com/person.schema.json", "$schema": "https://json-schema.org/draft/2020-12/schema",
                        "description": "A person", "type": "object",
                        "properties": {"first": {"description": "first name", "type": "string"},
                                       "age": {"default": 3, "description": "age in years", "type": "integer"}},
                        "required": ["first"]}, open(inp, "w"))
            entries = [(opts["json_input"], ["first", "age"])]
        out = os.path.join(tree, "generated.py" if opts["emit"] != "json_schema" else "generated.json")
        pre, suf = opts["tpl"]
        argv = ["cdd", "gen", "--name-tpl", pre + "{name}" + suf, "--input-mapping", inp, "--parse", opts["parse"],
                "--emit", opts["emit"], "--output-filename", out]
        if opts["infer_imports"]:
            argv.append("--emit-and-infer-imports")
        if opts["prepend"]:
            argv += ["--prepend", PREPENDS[(int(opts["prepend"]) - 1) % len(PREPENDS)]]
        if opts["no_word_wrap"]:
            argv.append("--no-word-wrap")
        res["argv"] = argv[1:]
        res["entries"] = [e[0] for e in entries]
        if opts["out_exists"]:
            open(out, "w").write("# precious pre-existing content\nKEEP = 1\n")
        if opts.get("tilde") and opts["out_exists"]:
            # the same existing file, spelled through the home directory
            argv[argv.index(out)] = "~/" + os.path.basename(out)
        if opts.get("after_another"):
            # the same gen call as the SECOND one of a process (SDK use: cdd.__main__.main / gen called once per model file): an earlier
            # call on another input, with the same flags, must not change what this one writes
            import json as _json
            src0, _e0 = gen_input(random.Random(seed + 1), opts["typing"])
            inp0 = os.path.join(tree, "earlier_mod.py")
            open(inp0, "w").write(src0)
            argv0 = list(argv[1:])
            argv0[argv0.index(inp)] = inp0
            argv0[argv0.index(out)] = os.path.join(tree, "earlier_generated" + os.path.splitext(out)[1])
            drv = os.path.join(work, "two_calls.py")
            open(drv, "w").write("import sys, json\nimport cdd.__main__ as M\ncalls = json.load(open(sys.argv[1]))\n"
                                 "for a in calls[:-1]:\n    try:\n        M.main(a)\n    except BaseException:\n        pass\nM.main(calls[-1])\n")
            _json.dump([argv0, argv[1:]], open(os.path.join(work, "calls.json"), "w"))
            before = snapshot(tree)
            r = run_observed(work, [drv, os.path.join(work, "calls.json")], mode="-f", cwd=tree, timeout=240, env_extra={"HOME": tree})
        else:
            before = snapshot(tree)
            r = run_observed(work, argv, cwd=tree, timeout=240, env_extra={"HOME": tree})
        after = snapshot(tree)
        res["rc"] = r["rc"]
        res["err_tail"] = r["err"].strip().splitlines()[-1:] if r["rc"] else []
        rel = os.path.basename(out)
        if opts["out_exists"]:
            if before.get(rel) != after.get(rel):
                res["problems"].append({"clause": "gen overwrote / modified an existing output file", "cls": "C19/overwrite"})
            if r["rc"] == 0 and not opts.get("tilde"):
                res["problems"].append({"clause": "gen did not refuse although the output file exists (phase 0)",
                                        "cls": "C19/overwrite-exit0"})
            return res
        if opts.get("json_input"):
            if before.get(opts["json_input"]) != after.get(opts["json_input"]):
                res["problems"].append({"clause": "gen modified its input file", "cls": "C19/input-modified"})
            if r["rc"] != 0:
                res["crashed"] = True
                res["problems"].append({"clause": "gen failed instead of writing the module", "error": res["err_tail"],
                                        "cls": "C19/json-input/crash/" + opts["emit"]})
                return res
            text = open(out).read()
            if opts["emit"] == "json_schema":
                return res
            try:
                mod = ast.parse(text)
                compile(text, out, "exec")
            except SyntaxError as e:
                res["problems"].append({"clause": "the written module does not compile", "detail": str(e), "cls": "C19/json-input/compile/" + opts["emit"]})
                return res
            syms = top_level_symbols(mod)
            allv = None
            for node in mod.body:
                if isinstance(node, ast.Assign) and any(isinstance(t, ast.Name) and t.id == "__all__" for t in node.targets):
                    allv = ast.literal_eval(node.value)
            defs = [s_ for s_ in syms if not s_.isupper()]
            if len(defs) != 1:
                res["problems"].append({"clause": "the module does not define exactly one symbol for the one entry", "symbols": syms,
                                        "cls": "C19/json-input/symbol-count/" + opts["emit"]})
            elif allv != defs:
                res["problems"].append({"clause": "__all__ does not list exactly the generated symbol", "all": allv, "symbols": syms,
                                        "cls": "C19/json-input/all-is-the-file-name-not-the-symbol/" + opts["emit"]})
            return res
        if before.get("input_mod.py") != after.get("input_mod.py"):
            res["problems"].append({"clause": "gen modified its input file", "cls": "C19/input-modified"})
        if r["rc"] != 0:
            res["crashed"] = True
            res["problems"].append({"clause": "gen failed instead of writing the module",
                                    "error": res["err_tail"],
                                    "cls": "C19/crash/%s%s" % ("infer-imports/" if opts["infer_imports"] and opts["emit"] not in
                                                               ("function", "pydantic") else "", opts["emit"])})
            if rel in after:
                try:
                    ast.parse(open(out).read())
                except SyntaxError:
                    res["problems"].append({"clause": "gen failed and left an output file that is not valid Python",
                                            "cls": "C19/partial-output/" + opts["emit"]})
            return res
        if opts["emit"] == "json_schema":
            import json
            try:
                data = json.load(open(out))
                res["json_ok"] = True
            except Exception as e:  # noqa
                res["problems"].append({"clause": "json_schema output is not JSON", "detail": str(e), "cls": "C19/json"})
                return res
            schemas = data["schemas"] if isinstance(data, dict) and isinstance(data.get("schemas"), list) else [data]
            if len(schemas) != len(entries):
                res["problems"].append({"clause": "the written document does not hold one schema per entry of the input mapping",
                                        "entries": [e[0] for e in entries], "schemas": [str((s_ or {}).get("$id"))[-60:] for s_ in schemas],
                                        "cls": "C19/json-schema-count"})
            return res
        text = open(out).read()
        try:
            mod = ast.parse(text)
            compile(text, out, "exec")
        except SyntaxError as e:
            res["problems"].append({"clause": "the written module does not compile", "detail": str(e),
                                    "cls": "C19/compile/%s%s" % (opts["emit"], "/infer-imports" if opts["infer_imports"] else "")})
            return res
        allv = None
        for node in mod.body:
            if isinstance(node, ast.Assign) and any(isinstance(t, ast.Name) and t.id == "__all__" for t in node.targets):
                try:
                    allv = ast.literal_eval(node.value)
                except Exception:  # noqa
                    allv = "unevaluable"
        syms = top_level_symbols(mod)
        res["all"] = allv
        res["symbols"] = syms
        if opts.get("sql_input") and opts["emit"] == "class":
            # each generated class carries the columns of its source model (and nothing else)
            pre, suf = opts["tpl"]
            for nm, want in entries:
                node = next((n for n in mod.body if isinstance(n, ast.ClassDef) and n.name == pre + nm + suf), None)
                got = [] if node is None else [t.id for b in node.body if isinstance(b, (ast.AnnAssign, ast.Assign))
                                               for t in ([b.target] if isinstance(b, ast.AnnAssign) else b.targets) if isinstance(t, ast.Name)]
                if got != want:
                    res["problems"].append({"clause": "a generated symbol does not have the interface of its source entry", "entry": nm,
                                            "attributes": got, "expected": want,
                                            "cls": "C19/infer/model-attributes/%s" % ("base-first" if nm == "Plain" or opts["sql_input"].startswith("Base") else
                                                                                  "mixin-first" if nm == "User" else "plain-class")})
        res["text_head"] = text[:200]
        # imports first (docstring may precede)
        seen_other = False
        for i, node in enumerate(mod.body):
            if isinstance(node, (ast.Import, ast.ImportFrom)):
                if seen_other:
                    res["problems"].append({"clause": "an import follows a definition in the generated module",
                                            "cls": "C19/imports-not-first"})
                    break
            elif not (i == 0 and isinstance(node, ast.Expr)):
                seen_other = True
        if opts["infer_imports"]:
            import typing
            imported = set()
            for node in ast.walk(mod):
                if isinstance(node, (ast.Import, ast.ImportFrom)):
                    for a in node.names:
                        imported.add((a.asname or a.name).split(".")[0])
            used = {n.id for n in ast.walk(mod) if isinstance(n, ast.Name) and isinstance(n.ctx, ast.Load)}
            known = set(typing.__all__) | {"Column", "Integer", "String", "Boolean", "Float", "Table", "Enum", "JSON",
                                           "BaseModel", "Identity", "Text", "LargeBinary"}
            missing = sorted((used & known) - imported - set(syms))
            if missing:
                res["problems"].append({"clause": "import inference enabled but a typing/SQLAlchemy name used in the output "
                                                  "is not imported", "names": missing,
                                        "cls": "C19/missing-import/" + opts["emit"]})
    finally:
        shutil.rmtree(root, ignore_errors=True)
    return res


def gen_cases(ctx):
    rng = ctx.rng
    n = 60 if ctx.quick else 1500
    cases = []
    for i in range(n):
        emit = EMITS[i % len(EMITS)] if i < 2 * len(EMITS) else rng.choice(EMITS)
        opts = {"emit": emit, "parse": rng.choice(["class", "infer"]), "tpl": list(rng.choice(TPLS)),
                "infer_imports": rng.random() < 0.4, "prepend": rng.randrange(1, 1 + len(PREPENDS)) if rng.random() < 0.4 else 0, "no_word_wrap": rng.random() < 0.3,
                "out_exists": rng.random() < 0.25, "tilde": rng.random() < 0.4,
                "typing": ("sql" if emit.startswith("sqlalchemy") else True) if rng.random() < 0.6 else False}
        if opts["infer_imports"] and rng.random() < 0.7:
            opts["typing"] = "uniform"
        cases.append((rng.randrange(1 << 30), opts))
    # fixed corner cases: import inference next to a --prepend that only MENTIONS the needed typing name (prose / longer identifier),
    # in the region where inference works on the pinned tree (every entry needs exactly `from typing import Optional`)
    for emit in ("class", "argparse"):
        for prepend in (2, 3):
            cases.append((rng.randrange(1 << 30), {"emit": emit, "parse": "class", "tpl": ["", "Cfg"], "infer_imports": True, "prepend": prepend,
                                                   "no_word_wrap": False, "out_exists": False, "tilde": False, "typing": "uniform"}))
    # the same call as the second one of a process, with import inference (every entry needs `from typing import Optional`)
    for emit in ("class", "argparse", "class"):
        cases.append((rng.randrange(1 << 30), {"emit": emit, "parse": "class", "tpl": list(rng.choice(TPLS)), "infer_imports": True, "prepend": 0,
                                               "no_word_wrap": False, "out_exists": False, "tilde": False, "typing": "uniform", "after_another": True}))
    # the identity template on SQLAlchemy models whose table name is not the class name
    for emit in ("class", "argparse"):
        cases.append((rng.randrange(1 << 30), {"emit": emit, "parse": "infer", "tpl": ["", ""], "infer_imports": False, "prepend": 0,
                                               "no_word_wrap": False, "out_exists": False, "tilde": False, "typing": False, "sql_input": "Base"}))
    for bases in ("Base", "TimestampMixin, Base", "Base, TimestampMixin"):
        cases.append((rng.randrange(1 << 30), {"emit": "class", "parse": "infer", "tpl": ["", "Cfg"], "infer_imports": False, "prepend": 0,
                                               "no_word_wrap": False, "out_exists": False, "tilde": False, "typing": False, "sql_input": bases}))
    for fname in ("person.json", "person.schema", "order.jsonschema"):
        for emit in ("class", "argparse", "json_schema"):
            cases.append((rng.randrange(1 << 30), {"emit": emit, "parse": "json_schema", "tpl": ["", "Cfg"], "infer_imports": False, "prepend": 0,
                                                   "no_word_wrap": False, "out_exists": False, "tilde": False, "typing": False, "json_input": fname}))
    return cases


def run(ctx):
    status = coqbuild.prove("C19", THEOREMS)
    meta = status["gen"].get("guards", {})
    cases = gen_cases(ctx)
    results = list(run_cases(case_worker, cases, chunk=1))
    # model predictions for the runs that wrote a Python module
    ok = [r for r in results if r.get("rc") == 0 and r.get("all") is not None]
    preds = call_many("gen_plan", [[r["opts"]["tpl"][0], r["opts"]["tpl"][1], r["entries"]] for r in ok]) if ok else []
    corr_bad = []
    for r, (all_m, sym_m) in zip(ok, preds):
        emit = r["opts"]["emit"]
        if r["all"] != all_m:
            if sorted(r["all"]) != sorted(all_m) if isinstance(r["all"], list) else True:
                r["problems"].append({"clause": "__all__ does not list exactly the names generated from the mapping by the template",
                                      "impl": r["all"], "model": all_m, "cls": "C19/all-mismatch/" + emit})
            else:
                corr_bad.append({"input": r["argv"], "impl": r["all"], "model": all_m})
        undefined = [n for n in (r["all"] if isinstance(r["all"], list) else []) if n not in r["symbols"]]
        if undefined:
            # the recorded sqlalchemy* finding: the symbol exists under its ORIGINAL name instead of the templated one
            renamed_only = all(e in r["symbols"] for e in r["entries"])
            r["problems"].append({"clause": "__all__ lists a name the module does not define", "names": undefined,
                                  "symbols": r["symbols"],
                                  "cls": ("C19/undefined-export/" if renamed_only else "C19/export-without-definition/") + emit})
        elif sorted(set(sym_m)) != sorted(set(s for s in r["symbols"] if s in set(sym_m))):
            corr_bad.append({"input": r["argv"], "impl_symbols": r["symbols"], "model_symbols": sym_m})
        extra = [s for s in r["symbols"] if s not in sym_m and not s.isupper() and s not in ("metadata", "Base")]
        if extra and not undefined:
            r["problems"].append({"clause": "the module defines a symbol that is not one of the generated entries",
                                  "names": extra, "cls": "C19/extra-symbol/" + emit})
    for r in results:
        if "harness_error" in r:
            ctx.violation({"stage": "harness error", "detail": r}, no_input=True)
            continue
        for pr in r.get("problems", []):
            ctx.item(pr["cls"], {"stage": "observation of `python -m cdd gen`", "clause": pr["clause"],
                                 "input": {"case_seed": r["seed"], "opts": r["opts"], "argv": r.get("argv")}, "detail": pr})
    # the name sanitiser itself against Model/Gen.v, on arbitrary strings (no non-ASCII digits: str.isdigit is modelled for ASCII)
    IDENT = ["match", "case", "type", "class", "def", "None", "print", "_", "__", "a", "B", "x1", "1", "9lives", "-", ".", " ", "é", "ß", "名", "$", "cl-ass", "-1x", ""]
    idents = ["".join(ctx.rng.choice(IDENT) for _ in range(ctx.rng.randint(0, 3))) for _ in range(400 if ctx.quick else 8000)] + IDENT
    from cdd.shared.pure_utils import ensure_valid_identifier as _evi
    for s_, m_ in zip(idents, call_many("ensure_valid_identifier", idents)):
        if _evi(s_) != m_:
            corr_bad.append({"input": s_, "impl": _evi(s_), "model": m_, "function": "ensure_valid_identifier"})
    # parser_utils.infer against Model/Infer.v on generated nodes (functions, classes with several kinds of bases, assignments of calls)
    def _infer_case(rng_):
        k = rng_.random()
        if k < 0.3:
            args = rng_.sample(["argument_parser", "x", "self", "parser", "y"], rng_.randint(0, 3))
            return "def f(%s):\n    pass\n" % ", ".join(args), ["f", args]
        if k < 0.7:
            bases = [rng_.choice([("Base", "Base"), ("object", "object"), ("TimestampMixin", "TimestampMixin"), ("db.Base", None),
                                  ("Generic[T]", None), ("base", "base"), ("Base2", "Base2")]) for _ in range(rng_.randint(0, 3))]
            return "class K(%s):\n    pass\n" % ", ".join(b[0] for b in bases), ["c", [b[1] for b in bases]]
        n = rng_.randint(0, 4)
        second = rng_.choice([("metadata", "metadata"), ("meta", "meta"), ("'x'", None), ("db.metadata", None)])
        argv = ["'t'", second[0], "Column('a', Integer)", "Column('b', Integer)"][:n]
        inner = ["k", n, second[1] if n > 1 else None]
        if rng_.random() < 0.5:
            return "T = Table(%s)\n" % ", ".join(argv), ["a", inner]
        return "T: Table = Table(%s)\n" % ", ".join(argv), ["a", inner]
    from cdd.shared.parse.utils.parser_utils import infer as _infer
    icases = [_infer_case(ctx.rng) for _ in range(300 if ctx.quick else 6000)]
    for (src_, enc_), m_ in zip(icases, call_many("infer", [e for _s, e in icases])):
        try:
            i_ = _infer(ast.parse(src_).body[0])
            i_ = "<none>" if i_ is None else i_
        except Exception:  # noqa
            i_ = "<raises>"
        if i_ != m_:
            corr_bad.append({"input": src_, "impl": i_, "model": m_, "function": "infer"})
    if not ctx.violations:
        if not status["ok"]:
            ctx.violation({"stage": "proof", "theorem": status.get("failing_theorem"),
                           "gen_branch_of_main": meta.get("gen_branch_items"), "args_dict": meta.get("args_dict"),
                           "note": "the never-overwrite guard of the gen branch of cdd/__main__.py:main is no longer the approved "
                                   "one directly in front of gen(**args_dict) (or a statement re-binds args/args_dict); every "
                                   "observed run with an existing output file was refused",
                           "status": {k: status[k] for k in ("theorems", "forbidden", "build_log") if k in status}},
                          no_input=True)
        elif corr_bad:
            ctx.violation({"stage": "correspondence: Model/Gen.v gen_plan vs generated module", "detail": corr_bad[:3]},
                          no_input=True)
    dist = {}
    for r in results:
        o = r.get("opts") or {}
        k = "%s|%s" % (o.get("emit"), "exists" if o.get("out_exists") else ("crash" if r.get("crashed") else "written"))
        dist[k] = dist.get(k, 0) + 1
    cov = {
        "obligations": status["obligations"], "discharged": status["discharged"],
        "checker_cmd": coqbuild.CHECKER_CMD.replace("<id>", "C19"), "theorems": status["theorems"],
        "trusted_base": GLOBAL_TRUSTED_BASE + [
            "translate/guards.py (statement list of the gen branch of main -> Gen/MainGuard.v)",
            "Model/Gen.v covers naming, __all__ accumulation and body re-ordering; the per-symbol emitters are the models of "
            "C02/C05/C06 (not re-proved here); parse-back equivalence of each symbol is not checked by this check"],
        "evaluations": len(results), "distinct_nontrivial": len(ok) + sum(1 for r in results if (r.get("opts") or {}).get("out_exists")),
        "rule": "one generated input module (1..5 classes) x parse kind x emit kind x template x flags x output absent/present per "
                "case, run as `python -m cdd gen` under the audit wrapper; non-trivial = a module was written and inspected, or the "
                "output pre-existed (guard exercised)",
        "written_modules": len(ok), "crashed": sum(1 for r in results if r.get("crashed")),
        "guard_cases": sum(1 for r in results if (r.get("opts") or {}).get("out_exists")),
        "input_distribution": dist, "traces_validated_against_impl": len(results),
        "gen_branch_items": meta.get("gen_branch_items"),
        "samples": [{"argv": r.get("argv"), "rc": r.get("rc"), "all": r.get("all"), "symbols": r.get("symbols")} for r in results[:3]],
        "build": {k: status[k] for k in ("build_s", "forbidden")},
    }
    return ctx.finish("proof", cov, assumptions=[
        "clauses 'each generated symbol, parsed back, has the interface of its source entry' and 'every used name is imported' "
        "are decided by observation/other properties only (partial)"])


def replay(ctx, payload):
    inp = payload.get("input") or {}
    if "case_seed" in inp:
        r = case_worker((inp["case_seed"], inp["opts"]))
        print({k: r.get(k) for k in ("argv", "rc", "problems", "all", "symbols", "err_tail")})
        return 1 if r.get("problems") else 0
    return run(ctx)
