"""C13 -- sync_properties updates exactly the selected property."""
import ast
import contextlib
import io
import os
import shutil
import tempfile

from .. import coqbuild, fatie
from ..common import GLOBAL_TRUSTED_BASE
from ..model import call_many
from ..pool import guarded, run_cases

THEOREMS = ["C13_shape_preserved", "C13_one_parameter", "C13_alignment", "C13_defaults_unchanged_partial", "C13_defaults_refuted", "C13_lookup_class_attribute", "C13_lookup_parameter", "C13_lookup_refuted", "C13_lookup_examples", "C13_eval_member_kept", "C13_eval_member_vs_unquote", "C13_eval_member_examples", "C13_eval_member_refuted"]
CLS = ["Alpha", "Beta", "Gamma"]
FNS = ["compute", "render", "fetch"]
ATTRS = ["width", "label", "mode", "ratio", "count"]
PARAMS = ["a", "b", "c", "d", "e"]
ANNS = ["int", "str", "float", "Optional[int]", "List[str]", "Literal['x', 'y']", "object"]
VALS = {"int": ["5", "-3"], "str": ["'why'", "'x'"], "float": ["0.0", "2.5"], "Optional[int]": ["None", "7"], "List[str]": ["None"],
        "Literal['x', 'y']": ["'x'"], "object": ["None", "5"]}
WRAP = "Optional[Union[{output_param}, str]]"


def gen_class(rng, name):
    lines = ["class %s(object):" % name]
    attrs = []
    # (now and then an attribute is called like a parameter of the methods: `lr: float = 0.1` next to `def __init__(self, lr=...)`)
    for a in rng.sample(ATTRS + PARAMS[:2] * (1 if rng.random() < 0.3 else 0), rng.randint(1, 4)):
        t = rng.choice(ANNS)
        if rng.random() < 0.7:
            lines.append("    %s: %s = %s" % (a, t, rng.choice(VALS[t])))
        else:
            lines.append("    %s: %s" % (a, t))
        attrs.append(a)
    meths = []
    for m in rng.sample(["run", "setup", "create"], rng.choice([0, 1, 1, 1, 2, 3])):
        sig, names = gen_sig(rng, rng.choice(["self", "cls", None]))
        if sig.startswith("cls"):
            lines.append("    @classmethod")
        elif not sig.startswith("self"):
            lines.append("    @staticmethod")
        lines += ["    def %s(%s):" % (m, sig), "        return 1"]
        meths.append((m, names))
    lines.append("")
    return "\n".join(lines), attrs, meths


def gen_sig(rng, first):
    n = rng.randint(1, 5)
    names = rng.sample(PARAMS, n)
    k = rng.randint(0, n)
    parts = [first] if first else []
    for i, p in enumerate(names):
        t = rng.choice(ANNS + [None, None])
        s = p if t is None else "%s: %s" % (p, t)
        if i >= n - k:
            s += (" = " if t else "=") + rng.choice(VALS[t] if t else ["1", "'why'", "0.0", "None"])
        parts.append(s)
    kw = []
    if rng.random() < 0.3:
        parts.append("*")
        for p in rng.sample(["kx", "ky"], rng.randint(1, 2)):
            t = rng.choice(ANNS)
            parts.append("%s: %s = %s" % (p, t, rng.choice(VALS[t])))
            kw.append(p)
    return ", ".join(parts), names + kw


# module-level values for --input-eval and the Literal their evaluation must yield (every member, in order, repeats included)
EVALS = [("('r', 'w')", "Literal['r', 'w']"), ("(False, True, 0, 1, 2)", "Literal[False, True, 0, 1, 2]"), ("('a', 'a', 'b')", "Literal['a', 'a', 'b']"),
         ("range(3)", "Literal[0, 1, 2]"), ("[1, 1.0, 2]", "Literal[1, 1.0, 2]"), ("('w', 'r')", "Literal['w', 'r']"),
         # strings that consist of quote characters (the SQL empty-string literal), one and two characters long
         ("('NULL', \"''\", '0')", "Literal['NULL', \"''\", '0']"), ("('\"\"', 'x')", "Literal['\"\"', 'x']"), ("(\"'\", 'q')", "Literal[\"'\", 'q']")]


def gen_module(rng, with_eval_source=False):
    """-> source, list of dotted paths to attributes, list of dotted paths to parameters"""
    items, attr_paths, param_paths = ["from typing import List, Literal, Optional, Union", ""], [], []
    if with_eval_source:
        items.append("CHOICES = %s" % (with_eval_source if isinstance(with_eval_source, str) else "('r', 'w')"))
        items.append("")
    kinds = [rng.choice(["class", "func"]) for _ in range(rng.randint(2, 4))]
    cls, fns = list(CLS), list(FNS)
    rng.shuffle(cls), rng.shuffle(fns)
    for k in kinds:
        if k == "class" and cls:
            name = cls.pop()
            src, attrs, meths = gen_class(rng, name)
            items.append(src)
            attr_paths += ["%s.%s" % (name, a) for a in attrs]
            for m, names in meths:
                param_paths += ["%s.%s.%s" % (name, m, p) for p in names]
        elif fns:
            name = fns.pop()
            sig, names = gen_sig(rng, None)
            items += ["def %s(%s):" % (name, sig), "    return 2", ""]
            param_paths += ["%s.%s" % (name, p) for p in names]
        if rng.random() < 0.3:
            items += ["UNRELATED_%d = %d" % (len(items), len(items)), ""]
    return "\n".join(items) + "\n", attr_paths, param_paths


# ---- adapters: Python ast -> Model/Rewrite.v nodes ---------------------------------------------------------------------
class Ids(object):
    def __init__(self):
        self.d = {}

    def get(self, node):
        k = ast.dump(node) if not isinstance(node, list) else "|".join(ast.dump(n) for n in node)
        return self.d.setdefault(k, len(self.d) + 1)


def U(n):
    return ast.unparse(n)


def to_nodes(body, ids):
    out = []
    for n in body:
        if isinstance(n, ast.ClassDef):
            out.append(["c", n.name, to_nodes(n.body, ids)])
        elif isinstance(n, ast.FunctionDef):
            extra = [n.decorator_list, n.body, [n.returns] if n.returns else [], [n.args.vararg] if n.args.vararg else [],
                     [n.args.kwarg] if n.args.kwarg else [], [d for d in n.args.kw_defaults if d is not None]]
            out.append(["f", n.name, [[a.arg, U(a.annotation) if a.annotation else None] for a in n.args.args],
                        [[a.arg, U(a.annotation) if a.annotation else None] for a in n.args.kwonlyargs],
                        [U(d) for d in n.args.defaults], ids.get([x for part in extra for x in part])])
        elif isinstance(n, ast.AnnAssign) and isinstance(n.target, ast.Name):
            out.append(["a", n.target.id, U(n.annotation), U(n.value) if n.value is not None else None])
        elif isinstance(n, ast.Assign) and len(n.targets) == 1 and isinstance(n.targets[0], ast.Name):
            out.append(["s", n.targets[0].id, U(n.value)])
        else:
            out.append(["o", ids.get(n)])
    return out


def run_case(c):
    import cdd.compound.sync_properties as sp
    from cdd.shared.ast_utils import annotate_ancestry, find_in_ast
    from cdd.shared.pure_utils import strip_split

    d = tempfile.mkdtemp(prefix="verif-c13-")
    res = {"problems": []}
    try:
        inp, outp = os.path.join(d, "input_mod.py"), os.path.join(d, "output_mod.py")
        open(inp, "w").write(c["input_src"])
        if c.get("same_file"):
            outp = inp
        else:
            open(outp, "w").write(c["output_src"])
        before_in = open(inp, "rb").read()
        before_tree = ast.parse(c["output_src"])
        # replacement node as the implementation resolves it (input side)
        repl = None
        if not c["eval"]:
            it = ast.parse(c["input_src"])
            annotate_ancestry(it)
            rn = find_in_ast(list(strip_split(c["input_param"], ".")), it)
            if rn is None:
                res["input_lookup"] = "none"
            elif isinstance(rn, ast.arg):
                repl = ["arg", [rn.arg, U(rn.annotation) if rn.annotation else None]]
            elif isinstance(rn, ast.AnnAssign):
                repl = ["ann", rn.target.id, U(rn.annotation), U(rn.value) if rn.value is not None else None]
            else:
                res["input_lookup"] = type(rn).__name__
            gt = locate(ast.parse(c["input_src"]), c["input_param"].split("."))
            if gt is not None and repl is not None:
                kind, node, _fn = gt
                want = ["arg", [node.arg, U(node.annotation) if node.annotation else None]] if kind == "param" else \
                    ["ann", node.target.id, U(node.annotation), U(node.value) if node.value is not None else None]
                if want != repl:
                    res["problems"].append(("input-lookup-wrong/%s" % c["in_kind"], {"path": c["input_param"], "want": want, "got": repl}))
                    res["lookup_wrong"] = True
            if repl is not None and c["wrap"]:
                if repl[0] == "arg" and repl[1][1] is not None:
                    repl[1][1] = U(ast.parse(WRAP.format(output_param=repl[1][1])).body[0].value)
                elif repl[0] == "ann":
                    repl[2] = U(ast.parse(WRAP.format(output_param=repl[2])).body[0].value)
        try:
            with contextlib.redirect_stderr(io.StringIO()), contextlib.redirect_stdout(io.StringIO()):
                sp.sync_properties(input_eval=c["eval"], input_filename=inp, input_params=[c["input_param"]],
                                   output_filename=outp, output_params=[c["output_param"]],
                                   output_param_wrap=WRAP if c["wrap"] else None)
        except BaseException as e:  # noqa
            res["raised"] = type(e).__name__ + ": " + str(e)[:80]
            if open(outp).read() != c["output_src"]:
                res["problems"].append(("output-changed-although-failed", {}))
            if not c.get("same_file") and open(inp, "rb").read() != before_in:
                res["problems"].append(("input-file-modified", {}))
            return res
        if not c.get("same_file") and open(inp, "rb").read() != before_in:
            res["problems"].append(("input-file-modified", {}))
        after_src = open(outp).read()
        try:
            after_tree = ast.parse(after_src)
        except SyntaxError as e:
            res["problems"].append(("output-not-python/%s-into-%s" % (c["in_kind"], c["out_kind"]), {"error": str(e)[:80]}))
            return res
        ids = Ids()
        res["before"] = to_nodes(before_tree.body, ids)
        res["after"] = to_nodes(after_tree.body, ids)
        res["repl"] = repl
        res["search"] = c["output_param"].split(".")
        if not res.get("lookup_wrong"):
            res["problems"] += diff_property(c, before_tree, after_tree, repl)
    finally:
        shutil.rmtree(d, ignore_errors=True)
    return res


def locate(tree, path):
    """ground truth lookup by the generator's own naming (names are unique per scope)"""
    cur = tree.body
    node = None
    for i, part in enumerate(path):
        nxt = None
        for n in cur:
            if isinstance(n, (ast.ClassDef, ast.FunctionDef)) and n.name == part:
                nxt = n
                break
            if isinstance(n, ast.AnnAssign) and isinstance(n.target, ast.Name) and n.target.id == part:
                return ("attr", n, None)
        if nxt is None:
            if isinstance(node, ast.FunctionDef):
                for a in node.args.args + node.args.kwonlyargs:
                    if a.arg == part:
                        return ("param", a, node)
            return None
        node = nxt
        cur = nxt.body
    return None


def diff_property(c, before, after, repl):
    probs = []
    path = c["output_param"].split(".")
    tb = locate(before, path)

    def strip_target(tree, target_name_after=None):
        """dump of the module with the target location blanked"""
        t = ast.parse(ast.unparse(tree))
        loc = locate(t, path if target_name_after is None else path[:-1] + [target_name_after])
        if loc is None:
            return None
        kind, node, fn = loc
        if kind == "attr":
            node.annotation = ast.Name("X", ast.Load())
            node.value = None
            node.target = ast.Name("X", ast.Store())
        else:
            node.arg = "X"
            node.annotation = None
        return ast.dump(t)

    new_name = None
    if repl is not None:
        new_name = repl[1][0] if repl[0] == "arg" else repl[1]
    if c["eval"]:
        new_name = path[-1]
    b = strip_target(before)
    a = strip_target(after, new_name)
    if b is None:
        return probs
    if a is None:
        probs.append(("target-not-found-after/%s-into-%s" % (c["in_kind"], c["out_kind"]), {"expected_name": new_name}))
        return probs
    if a != b:
        # what differs? defaults of the target function, or something else
        kindb, nodeb, fnb = tb
        if kindb == "param":
            la = locate(after, path[:-1] + [new_name])
            fna = la[2] if la else None
            if fna is not None and [ast.dump(x) for x in fnb.args.defaults] != [ast.dump(x) for x in fna.args.defaults]:
                same = repl is not None and repl[0] == "ann" and any(x.arg == repl[1] for x in fnb.args.args)
                if same:
                    # which slot of `defaults` was overwritten, relative to the position of the target among the non-receiver parameters
                    # (the recorded defect indexes `defaults` by that position)
                    pos_args = [x.arg for x in fnb.args.args if x.arg not in ("self", "cls")]
                    changed = [i for i, (x, y) in enumerate(zip(fnb.args.defaults, fna.args.defaults)) if ast.dump(x) != ast.dump(y)]
                    same = "same-name-attribute" + ("" if changed == [pos_args.index(path[-1])] else "/slot-is-not-the-parameter-position")
                probs.append(("other-default-changed/%s" % (same if same else "other"),
                              {"before": [ast.unparse(x) for x in fnb.args.defaults], "after": [ast.unparse(x) for x in fna.args.defaults]}))
                return probs
        probs.append(("something-else-changed/%s-into-%s" % (c["in_kind"], c["out_kind"]), {}))
    # the target itself
    la = locate(after, path[:-1] + [new_name]) if new_name else None
    if la is not None and repl is not None and not c["eval"]:
        kind, node, fn = la
        want_ann = repl[1][1] if repl[0] == "arg" else repl[2]
        got_ann = ast.unparse(node.annotation) if node.annotation is not None else None
        if (want_ann or None) != (got_ann or None):
            probs.append(("target-annotation/%s-into-%s%s" % (c["in_kind"], c["out_kind"], "/wrap" if c["wrap"] else ""),
                          {"want": want_ann, "got": got_ann}))
    if c["eval"] and la is not None:
        kind, node, fn = la
        got_ann = ast.unparse(node.annotation) if node.annotation is not None else ""
        want = c.get("eval_want", "Literal['r', 'w']")
        if c["wrap"]:
            want = ast.unparse(ast.parse(WRAP.format(output_param=want)).body[0].value)
        def same_expr(a, b):
            try:
                return ast.dump(ast.parse(a)) == ast.dump(ast.parse(b))
            except SyntaxError:
                return a == b
        if not same_expr(got_ann, want):
            probs.append(("eval-annotation%s" % ("/wrap" if c["wrap"] else ""), {"want": want, "got": got_ann}))
    return probs


def gen_case(rng):
    ev = rng.random() < 0.2
    ev_src, ev_want = rng.choice(EVALS)
    isrc, iattrs, iparams = gen_module(rng, with_eval_source=(ev_src if ev else False))
    osrc, oattrs, oparams = gen_module(rng)
    same_file = (not ev) and rng.random() < 0.15 and len(iattrs) + len(iparams) >= 2
    if same_file:
        # one module is both the source and the destination (a property copied inside one file)
        osrc, oattrs, oparams = isrc, list(iattrs), list(iparams)
    if ev:
        ip, in_kind = "CHOICES", "eval"
    else:
        pool = [("attr", p) for p in iattrs] + [("param", p) for p in iparams]
        in_kind, ip = rng.choice(pool)
    pool = [("attr", p) for p in oattrs] + [("param", p) for p in oparams]
    # the target takes the input's NAME: keep only targets whose scope does not already hold that name
    if not ev and not same_file and oparams and rng.random() < 0.2:
        # the "keep config and signature in sync" use: a class attribute WITH a value, named like the parameter it is synced onto
        op = rng.choice(oparams)
        t = rng.choice(ANNS)
        isrc = "from typing import List, Literal, Optional, Union\n\nclass Cfg(object):\n    %s: %s = %s\n" % (op.split(".")[-1], t, rng.choice(VALS[t]))
        return {"input_src": isrc, "output_src": osrc, "input_param": "Cfg." + op.split(".")[-1], "output_param": op, "in_kind": "attr",
                "out_kind": "param", "wrap": rng.random() < 0.3, "eval": False, "eval_want": ev_want, "same_file": False}
    in_name = ip.split(".")[-1]
    scope = lambda p: p.rsplit(".", 1)[0]
    taken = lambda p: any(q != p and scope(q) == scope(p) and q.split(".")[-1] == in_name for _k, q in pool)
    ok = [(k, p) for k, p in pool if (ev or not taken(p)) and not (same_file and p == ip)]
    out_kind, op = rng.choice(ok or pool)
    return {"input_src": isrc, "output_src": osrc, "input_param": ip, "output_param": op, "in_kind": in_kind, "out_kind": out_kind,
            "wrap": (rng.random() < 0.7) if same_file else (rng.random() < 0.4), "eval": ev, "eval_want": ev_want, "same_file": same_file}


def worker(batch):
    out = {"n": 0, "ran": 0, "items": [], "corr": [], "raised": 0, "modelled": 0}
    results = []
    for c in batch:
        out["n"] += 1
        st, r = guarded(run_case, c, 60)
        if st != "ok":
            out["items"].append(("C13/harness/" + st, {"detail": r}, c))
            continue
        if "raised" in r:
            out["raised"] += 1
            out["items"].append(("C13/raises/%s-into-%s/%s" % (c["in_kind"], c["out_kind"], r["raised"].split(":")[0]), {"error": r["raised"]}, c))
        else:
            out["ran"] += 1
        for cls, det in r["problems"]:
            out["items"].append(("C13/" + cls, det, c))
        if r.get("repl") is not None and "after" in r:
            results.append((c, r))
    if results:
        ms = call_many("rewrite", [[r["search"], r["repl"], r["before"]] for c, r in results])
        for (c, r), m in zip(results, ms):
            if m is None:
                continue
            out["modelled"] += 1
            if m[0] != r["after"]:
                out["corr"].append({"input": {k: c[k] for k in ("input_param", "output_param", "wrap", "output_src")}, "repl": r["repl"],
                                    "impl": r["after"], "model": m[0]})
    return out


def collect(ctx, n, _unused=0):
    rng = ctx.rng
    cases = [gen_case(rng) for _ in range(n)]
    # corpus: the witness of theorem C13_defaults_refuted (same-named class attribute with a value synced onto a parameter)
    cases.insert(0, {"input_src": "from typing import Optional\n\nclass In(object):\n    a: int = 5\n",
                     "output_src": "def f(x, a='why', z=0.0):\n    return 2\n", "input_param": "In.a", "output_param": "f.a",
                     "in_kind": "attr", "out_kind": "param", "wrap": False, "eval": False})
    # corpus: a class attribute with a value synced onto the same-named parameter of a static method that FOLLOWS an ordinary method
    # (every parameter has a default, so the slot of `defaults` that is written is the parameter's own)
    cases.insert(1, {"input_src": "class Cfg(object):\n    size: int = 10\n",
                     "output_src": "class K(object):\n    def run(self, steps: int = 1, verbose: bool = False):\n        return 1\n\n"
                                   "    @staticmethod\n    def create(name: str = 'k', size: float = 3.0, depth: int = 2):\n        return 1\n",
                     "input_param": "Cfg.size", "output_param": "K.create.size", "in_kind": "attr", "out_kind": "param", "wrap": False, "eval": False})
    # corpus: an attribute annotated `object` (what cdd writes for an unknown type) onto a parameter; evaluated collections whose
    # members are strings made of quote characters
    cases.insert(2, {"input_src": "class Cfg(object):\n    tfds_dir: object = None\n    width: int = 5\n",
                     "output_src": "def fetch(a: int, b=1):\n    return 2\n", "input_param": "Cfg.tfds_dir", "output_param": "fetch.a",
                     "in_kind": "attr", "out_kind": "param", "wrap": False, "eval": False})
    for k, (ev_src, ev_want) in enumerate(EVALS[-3:]):
        cases.insert(3, {"input_src": "CHOICES = %s\n\nclass Cfg(object):\n    width: int = 5\n" % ev_src,
                         "output_src": "from typing import Literal\n\nclass K(object):\n    mode: str = 'x'\n\ndef fetch(a: int, b=1):\n    return 2\n",
                         "input_param": "CHOICES", "output_param": ("fetch.a", "K.mode", "fetch.b")[k], "in_kind": "eval",
                         "out_kind": ("param", "attr", "param")[k], "wrap": False, "eval": True, "eval_want": ev_want, "same_file": False})
    agg = {"n": 0, "ran": 0, "raised": 0, "modelled": 0}
    items, corr = [], []
    # the lookup itself (find_in_ast after annotate_ancestry) against Model/FindAst.v: every path of some of the generated modules,
    # misses, 3-name paths
    look = []
    for c in cases[: max(20, n // 4)]:
        for src in {c["input_src"], c["output_src"]}:
            ss = fatie.searches(rng, src, PARAMS + ATTRS)
            look += [(src, s_) for s_ in rng.sample(ss, min(6, len(ss)))]
    n_look, look_kinds, look_bad = fatie.compare(look)
    corr += look_bad[:3]
    agg["lookups"] = n_look
    agg["lookup_kinds"] = look_kinds
    for r in run_cases(worker, [cases[i:i + 10] for i in range(0, len(cases), 10)], chunk=1):
        if "harness_error" in r:
            items.append(("C13/harness/error", {"detail": r}, None))
            continue
        for k in ("n", "ran", "raised", "modelled"):
            agg[k] += r[k]
        items += r["items"]
        corr += r["corr"][:3]
    return agg, items, corr, cases


def run(ctx):
    status = coqbuild.prove("C13", THEOREMS)
    agg, items, corr, cases = collect(ctx, 200 if ctx.quick else 9000)
    for cls, det, c in items:
        ctx.item(cls, {"stage": "cdd.compound.sync_properties.sync_properties on generated module pairs", "clause": cls,
                       "input": {k: c[k] for k in ("input_param", "output_param", "wrap", "eval", "input_src", "output_src")} if c else None,
                       "detail": det})
    # Model/SetValue.v (C13_eval_member_*) against ast_utils.set_value on texts over quotes, letters and blanks
    QA = ["'", '"', "a", "b", "NULL", " ", "x y", "\\"]
    strs = ["".join(ctx.rng.choice(QA) for _ in range(ctx.rng.randint(0, 4))) for _ in range(400 if ctx.quick else 8000)] + \
        ["''", '""', "'", '"', "'a'", '"a"', "'ab\"", "", "'" * 3, '"' * 4]
    from cdd.shared.ast_utils import set_value as _set_value
    for s_, m_ in zip(strs, call_many("set_value_text", strs)):
        try:
            i_ = _set_value(s_).value
        except Exception as e:  # noqa
            i_ = "<raises %s>" % type(e).__name__
        if i_ != m_:
            corr.append({"function": "set_value", "input": s_, "impl": i_, "model": m_})
    agg["set_value_texts"] = len(strs)
    if not ctx.violations:
        if corr:
            ctx.violation({"stage": "correspondence: Model/Rewrite.v rewrite vs the output file's AST after sync_properties; Model/FindAst.v vs find_in_ast; Model/SetValue.v vs set_value",
                           "detail": corr[:2],
                           "n_disagreements": len(corr)}, no_input=True)
        elif not status["ok"]:
            ctx.violation({"stage": "proof", "theorem": status.get("failing_theorem"),
                           "status": {k: status[k] for k in ("theorems", "forbidden", "build_log") if k in status}}, no_input=True)
    cov = {
        "obligations": status["obligations"], "discharged": status["discharged"],
        "checker_cmd": coqbuild.CHECKER_CMD.replace("<id>", "C13"), "theorems": status["theorems"],
        "trusted_base": GLOBAL_TRUSTED_BASE + [
            "the model covers the output-side rewrite (annotate_ancestry locations + RewriteAtQuery); the replacement node is the one the "
            "implementation's find_in_ast resolves on the input side (that lookup is checked against the generator's ground truth, not "
            "modelled); --input-eval evaluates the input module by design", "Python ast -> model adapter"],
        "evaluations": agg["n"], "distinct_nontrivial": agg["ran"],
        "rule": "pairs of generated modules (classes with annotated attributes, methods with self/cls/static, functions with 1..5 "
                "parameters with and without defaults and keyword-only parameters, unrelated statements) x a valid (input, output) dotted "
                "path pair x wrap template present/absent x --input-eval; non-trivial = sync_properties ran to completion",
        "completed": agg["ran"], "raised": agg["raised"], "compared_with_model": agg["modelled"], "model_disagreements": len(corr),
        "lookups_compared_with_model": agg["lookups"], "set_value_texts_compared_with_model": agg["set_value_texts"], "lookup_result_kinds": agg["lookup_kinds"],
        "traces_validated_against_impl": agg["modelled"] + agg["lookups"],
        "samples": [{k: cases[0][k] for k in ("input_param", "output_param", "wrap", "eval")}, cases[0]["output_src"][:300]],
        "build": {k: status[k] for k in ("build_s", "forbidden")},
    }
    return ctx.finish("proof", cov, assumptions=["generated modules carry no docstrings (ast_parse re-indents them: recorded for C12)"])


def replay(ctx, payload):
    return run(ctx)
