"""C10 -- output is a deterministic function of the input alone (hash seed, call history)."""
import json
import os
import shutil
import subprocess
import sys
import tempfile

from .. import coqbuild
from ..common import GLOBAL_TRUSTED_BASE, REPO
from ..model import call_many
from ..pool import run_cases

THEOREMS = ["C10_merge_enum_independent", "C10_order_spec", "C10_join_enum_independent", "C10_sites",
            "C10_inventory_nonempty", "C10_merge_example", "C10_constants_are_the_sources"]
PY = sys.executable

DRIVER = r'''
import sys, os, json, ast, io, contextlib, shutil, tempfile
from collections import OrderedDict
job = json.load(open(sys.argv[1]))
out = {}
import cdd.shared.parse.utils.parser_utils as pu
import cdd.function.parse, cdd.class_.parse, cdd.class_.emit, cdd.function.emit, cdd.argparse_function.emit
import cdd.pydantic.emit, cdd.json_schema.emit, cdd.sqlalchemy.emit, cdd.docstring.emit, cdd.docstring.parse
from cdd.shared.source_transformer import to_code
from cdd.shared.pure_utils import SetEncoder

ROUTES_MODEL = "\n".join([
    "from sqlalchemy import Boolean, Column, Integer, String", "from sqlalchemy.orm import declarative_base", "",
    "Base = declarative_base()", "", "", "class Config(Base):", '    """', "    Config record", "",
    "    :cvar dataset_name: [PK] name of dataset", "    :cvar size: how big", '    """', "", '    __tablename__ = "config_tbl"', "",
    '    dataset_name = Column(String, doc="name of dataset", primary_key=True)', '    size = Column(Integer, doc="how big", nullable=True)', ""])


def quiet(f, *a, **k):
    try:
        with contextlib.redirect_stderr(io.StringIO()), contextlib.redirect_stdout(io.StringIO()):
            return f(*a, **k)
    except BaseException as e:
        return "RAISED " + type(e).__name__

def od(pairs):
    return OrderedDict((k, {kk: vv for kk, vv in zip(("typ", "doc", "default"), v) if vv is not None}) for k, v in pairs)

# T1 merge_params
t1 = []
for other, target in job["merge"]:
    r = pu.merge_params(od(other), od(target))
    t1.append([[k, [v.get("typ"), v.get("doc"), v.get("default")]] for k, v in r.items()])
out["merge"] = t1

def ir_view(ir):
    if isinstance(ir, str):
        return ir
    return {"params": [[k, v.get("typ"), v.get("doc"), repr(v.get("default")) if "default" in v else None] for k, v in ir["params"].items()],
            "returns": repr((ir.get("returns") or {}).get("return_type")), "doc": ir.get("doc")}

# T2 function.parse
out["fparse"] = [ir_view(quiet(cdd.function.parse.function, ast.parse(src).body[0])) for src in job["functions"]]

def battery(ir_src):
    node = ast.parse(ir_src).body[0]
    ir = quiet(cdd.class_.parse.class_, node) if isinstance(node, ast.ClassDef) else quiet(cdd.function.parse.function, node)
    if isinstance(ir, str):
        return [ir]
    res = []
    import copy
    for name, em, kw in (("class", cdd.class_.emit.class_, {}),
                         ("function", cdd.function.emit.function, {"function_name": "f", "function_type": "static"}),
                         ("argparse", cdd.argparse_function.emit.argparse_function, {}),
                         ("pydantic", cdd.pydantic.emit.pydantic, {}),
                         ("sqlalchemy", cdd.sqlalchemy.emit.sqlalchemy, {}),
                         ("sqlalchemy_table", cdd.sqlalchemy.emit.sqlalchemy_table, {}),
                         ("sqlalchemy_hybrid", cdd.sqlalchemy.emit.sqlalchemy_hybrid, {})):
        r = quiet(em, copy.deepcopy(ir), **kw)
        res.append(name + ":" + (r if isinstance(r, str) else quiet(to_code, r)))
    r = quiet(cdd.json_schema.emit.json_schema, copy.deepcopy(ir))
    res.append("json_schema:" + (r if isinstance(r, str) else json.dumps(r, cls=SetEncoder)))
    for style in ("rest", "google", "numpydoc"):
        res.append(style + ":" + str(quiet(cdd.docstring.emit.docstring, copy.deepcopy(ir), docstring_format=style)))
    res.append("ir:" + json.dumps(ir_view(ir), default=repr))
    return res

# T3 + T5: the first input is converted first, again after everything else, and its node is re-used across formats
first = job["sources"][0]
r_first = battery(first)
out["battery"] = [battery(s) for s in job["sources"]]
r_again = battery(first)
out["history"] = {"first": r_first, "again": r_again}
# every input once more, in reverse order, after everything else has run: the k-th conversion of an input is its first
out["history_all"] = {"again": [battery(s) for s in reversed(job["sources"])][::-1]}
node = ast.parse(job["functions_with_body"][0]).body[0]
dump0 = ast.dump(node)
ir_a = quiet(cdd.function.parse.function, node)
cls = quiet(cdd.class_.emit.class_, ir_a) if not isinstance(ir_a, str) else ir_a
ir_b = quiet(cdd.function.parse.function, node)
f2 = quiet(cdd.function.emit.function, ir_b, function_name="g", function_type="static") if not isinstance(ir_b, str) else ir_b
def show(x):
    if isinstance(x, str):
        return x
    r = quiet(to_code, x)
    return ast.dump(x) if r.startswith("RAISED") else r
out["reuse"] = {"input_node_unchanged": ast.dump(node) == dump0, "after_class_emit": show(f2)}
fresh = ast.parse(job["functions_with_body"][0]).body[0]
ir_c = quiet(cdd.function.parse.function, fresh)
f3 = quiet(cdd.function.emit.function, ir_c, function_name="g", function_type="static") if not isinstance(ir_c, str) else ir_c
out["reuse"]["fresh"] = show(f3)

# T4 files: gen --phase 1 on a model with several unresolved foreign tables
d = tempfile.mkdtemp(prefix="verif-c10-")
try:
    pkg = os.path.join(d, "models_pkg", "models"); os.makedirs(pkg)
    fn = os.path.join(pkg, "order.py")
    open(fn, "w").write(job["fk_model"])
    from cdd.sqlalchemy.utils.emit_utils import update_with_imports_from_columns
    r = quiet(update_with_imports_from_columns, fn)
    out["phase1"] = open(fn).read() if not isinstance(r, str) else r
finally:
    shutil.rmtree(d, ignore_errors=True)
# T7: import inference with the two stock resolver orders: the answer for one order must not depend on having asked the other first
def _imports(order_first):
    from cdd.shared.ast_utils import infer_imports, DEFAULT_MODULES_TO_ALL, DEFAULT_MODULES_TO_ALL_SQL_FIRST
    res = {}
    for label in order_first:
        node = ast.parse("class T(Base):\n    body = Column(Text, nullable=False)\n    extra: Any = None\n    pair: Tuple[int, int] = None").body[0]
        mta = DEFAULT_MODULES_TO_ALL_SQL_FIRST if label == "sql" else DEFAULT_MODULES_TO_ALL
        r = infer_imports(node, modules_to_all=mta)
        res[label] = "".join(map(to_code, r or ()))
    return res
# half of the processes ask in one order, half in the other; the answers per resolver order must be the same in all of them
_seed = os.environ.get("PYTHONHASHSEED", "0")
_order = ["sql", "typing"] if (_seed.isdigit() and int(_seed) % 2 == 0) else ["typing", "sql"]
_r = quiet(_imports, _order)
out["imports_by_resolver_order"] = _r if isinstance(_r, str) else {k: _r[k] for k in sorted(_r)}

# T8: a column typed Union[int, <unknown name>] emitted as SQLAlchemy, in half of the processes AFTER a class with a plain column of that
# unknown type was emitted (the type tables are module-level dicts): the text must not depend on that history
def _sql_union():
    from collections import OrderedDict
    import cdd.sqlalchemy.emit
    mk = lambda nm, typ: {"name": nm, "doc": "A %s" % nm, "returns": None,
                          "params": OrderedDict((("key", {"typ": "int", "doc": "[PK] the key"}), ("billing", {"typ": typ, "doc": "where to bill"})))}
    if _seed.isdigit() and int(_seed) % 2 == 0:
        cdd.sqlalchemy.emit.sqlalchemy(mk("Order", "Address"), class_name="Order")
    texts = [to_code(cdd.sqlalchemy.emit.sqlalchemy(mk("Invoice", "Union[int, Address]"), class_name="Invoice")) for _ in range(2)]
    return texts
out["sql_union_after_unknown_type"] = quiet(_sql_union)

# T9: merging several __all__ lists whose names differ only in case / punctuation (the merged list is sorted out of a frozenset)
def _merge_all():
    from cdd.shared.ast_utils import merge_assignment_lists
    m = ast.parse("__all__ = ['config', 'Config', 'CONFIG', 'a_b']\n__all__ = ['Config', 'conFig', 'A_b', 'a_B', 'zeta']\n")
    merge_assignment_lists(m, "__all__")
    return to_code(m)
out["merged_all_lists"] = quiet(_merge_all)

# T10: the first import block names one symbol under several aliases (sorting keeps ties in the order they are met)
def _dedup_imports():
    from cdd.shared.ast_utils import deduplicate_sorted_imports
    m = ast.parse("from os import path\nfrom os import path as osp, sep\nfrom os import path as p2, environ\nimport sys\n\nX = 1\n")
    r = deduplicate_sorted_imports(m)
    return to_code(r if r is not None else m)
out["dedup_import_aliases"] = quiet(_dedup_imports)

# T11: a route whose yml block names several entities: which one the operation is about must not depend on the hash seed
def _route_entities():
    import cdd.routes.parse.bottle
    src = ("@rest_api.post('/api/pet')\ndef create():\n    \"\"\"\n    Create `Pet`\n\n    ```yml\n    responses:\n      '201':\n        description: A `Pet` object.\n"
           "        content:\n          application/json:\n            schema:\n              $ref: ```Pet```\n      '202':\n        description: A `Job` object.\n"
           "        content:\n          application/json:\n            schema:\n              $ref: ```Job```\n      '400':\n        description: A `ServerError` object.\n"
           "        content:\n          application/json:\n            schema:\n              $ref: ```ServerError```\n    ```\n\n    :return: it\n    \"\"\"\n    return {}\n")
    r = cdd.routes.parse.bottle.bottle(ast.parse(src).body[0])
    return json.dumps(r, sort_keys=True, default=repr)
out["route_entities"] = quiet(_route_entities)

# T6: gen_routes / upsert_routes into an existing routes file that has none of the requested routes yet
d = tempfile.mkdtemp(prefix="verif-c10-")
try:
    from cdd.compound.openapi.gen_routes import gen_routes, upsert_routes
    mp, rp = os.path.join(d, "models.py"), os.path.join(d, "routes.py")
    open(mp, "w").write(ROUTES_MODEL)
    open(rp, "w").write("from bottle import Bottle, request, response\n\nrest_api = Bottle(catchall=False, autojson=True)\n\n")
    def _routes():
        routes, pk = gen_routes(app="rest_api", model_path=mp, model_name="Config", crud="CRD", route="/api/config")
        upsert_routes(app="rest_api", routes=routes, routes_path=rp, route="/api/config", primary_key=pk)
        return open(rp).read()
    out["routes_upsert"] = quiet(_routes)
finally:
    shutil.rmtree(d, ignore_errors=True)
print("@@" + json.dumps(out))
'''

NAMES = ["alpha", "beta", "gamma", "delta", "eps", "zeta", "eta", "theta"]
TYPS = ["int", "str", "float", "bool", "Optional[int]", "List[str]", "Literal['a', 'b']", "dict"]
DEFS = {"int": ["5", "-3", "0"], "str": ['"x"', '"hello world"'], "float": ["0.5", "-1.5"], "bool": ["True", "False"],
        "Optional[int]": ["None", "7"], "List[str]": ["None"], "Literal['a', 'b']": ['"a"'], "dict": ["None"]}
FK_MODEL = '''from sqlalchemy import Column, ForeignKey, Integer, String

Base = object


class Order(Base):
    """An order referencing other tables"""

    __tablename__ = "order"

    id = Column(Integer, primary_key=True)
    note = Column(String, nullable=True)
%s'''


def gen_function(rng, with_body=False):
    k = rng.randint(2, 7)
    names = rng.sample(NAMES, k)
    ndef = rng.randint(0, k)
    sig = []
    typs = {}
    for i, n in enumerate(names):
        t = rng.choice(TYPS)
        typs[n] = t
        if i >= k - ndef:
            sig.append("%s=%s" % (n, rng.choice(DEFS[t])))
        else:
            sig.append(n)
    documented = rng.sample(names, rng.randint(0, k))
    if rng.random() < 0.5:
        rng.shuffle(documented)
    if with_body:
        documented = list(names)
    doc = ["    Function doc", ""]
    for n in documented:
        doc.append("    :param %s: the %s" % (n, n))
        if with_body or rng.random() < 0.7:
            doc.append("    :type %s: ```%s```" % (n, typs[n]))
        doc.append("")
    if rng.random() < 0.5 and not with_body:
        doc += ["    :return: result", "    :rtype: ```int```", ""]
    body = "    scaled = %s * 10\n    return scaled\n" % names[0] if with_body else "    return 1\n"
    return 'def f(%s):\n    """\n%s\n    """\n%s' % (", ".join(sig), "\n".join(doc), body), names, documented


def gen_function_styled(rng):
    """a function documented in Google or NumPy style, with sections after the parameters (two functions of one job often share the
    same docstring text, as generated code does)"""
    k = rng.randint(1, 4)
    names = rng.sample(NAMES, k)
    style = rng.choice(["google", "numpydoc"])
    tail = rng.sample(["Raises", "Example", "Note"], rng.randint(0, 2))
    if style == "google":
        doc = ["    Save it", "", "    Args:"] + ["      %s (int): the %s" % (n, n) for n in names] + [""]
        if rng.random() < 0.5:
            doc += ["    Returns:", "      int: result", ""]
        for t in tail:
            doc += ["    %s:" % t, "      something about %s" % t.lower(), ""]
    else:
        doc = ["    Save it", "", "    Parameters", "    ----------"] + [l for n in names for l in ("    %s : int" % n, "        the %s" % n)] + [""]
        if rng.random() < 0.5:
            doc += ["    Returns", "    -------", "    int", "        result", ""]
        for t in tail:
            doc += ["    %s" % t, "    " + "-" * len(t), "    something about %s" % t.lower(), ""]
    return 'def f(%s):\n    """\n%s\n    """\n    return 1\n' % (", ".join(names), "\n".join(doc[:-1]))


def gen_class(rng):
    k = rng.randint(1, 6)
    names = rng.sample(NAMES, k)
    body, doc = [], ["    Class doc", ""]
    for n in names:
        t = rng.choice(TYPS)
        body.append("    %s: %s = %s" % (n, t, rng.choice(DEFS[t])))
        doc.append("    :cvar %s: the %s" % (n, n))
    return 'class Cfg(object):\n    """\n%s\n    """\n\n%s\n' % ("\n".join(doc), "\n".join(body))


def gen_params(rng, names):
    out = []
    for n in names:
        out.append([n, [rng.choice([None, "int", "str", "Optional[int]", "List[str]"]),
                        rng.choice([None, "", "the doc", "other doc"]),
                        rng.choice([None, "None", "```(None)```", "5", "x"])]])
    return out


def gen_job(rng, n):
    job = {"merge": [], "functions": [], "sources": [], "functions_with_body": []}
    meta = []
    for _ in range(n):
        on = rng.sample(NAMES, rng.randint(0, 6))
        tn = rng.sample(NAMES, rng.randint(0, 6))
        job["merge"].append([gen_params(rng, on), gen_params(rng, tn)])
    for _ in range(n):
        src, names, documented = gen_function(rng)
        job["functions"].append(src)
        meta.append((names, documented))
    for _ in range(max(4, n // 4)):
        job["sources"].append(gen_class(rng) if rng.random() < 0.6 else gen_function(rng)[0])
    styled = [gen_function_styled(rng) for _ in range(max(3, n // 8))]
    job["sources"] += styled + [styled[0]]          # the same text a second time
    job["functions_with_body"].append(gen_function(rng, with_body=True)[0])
    tables = rng.sample(["Customer", "Product", "Warehouse", "Courier", "Vendor", "Region"], rng.randint(2, 5))
    job["fk_model"] = FK_MODEL % "".join('    %s = Column(%s, ForeignKey("%s"), nullable=True)\n' % (t.lower(), t, t) for t in tables)
    return job, meta


def seed_worker(arg):
    seed, jobfile = arg
    d = tempfile.mkdtemp(prefix="verif-c10-drv-")
    try:
        drv = os.path.join(d, "driver.py")
        open(drv, "w").write(DRIVER)
        env = dict(os.environ, PYTHONPATH=REPO, PYTHONHASHSEED=str(seed), PYTHONDONTWRITEBYTECODE="1")
        p = subprocess.run([PY, "-W", "ignore", drv, jobfile], stdout=subprocess.PIPE, stderr=subprocess.PIPE, text=True, env=env,
                           cwd=d, timeout=1200)
        for line in p.stdout.splitlines():
            if line.startswith("@@"):
                return {"seed": seed, "out": json.loads(line[2:])}
        return {"seed": seed, "error": (p.stderr or "")[-800:]}
    finally:
        shutil.rmtree(d, ignore_errors=True)


def diff_paths(a, b, path=""):
    if type(a) != type(b):
        return [path]
    if isinstance(a, dict):
        out = []
        for k in sorted(set(a) | set(b)):
            out += diff_paths(a.get(k), b.get(k), path + "/" + str(k)) if k in a and k in b else [path + "/" + str(k)]
        return out
    if isinstance(a, list):
        if len(a) != len(b):
            return [path + " (length)"]
        out = []
        for i, (x, y) in enumerate(zip(a, b)):
            out += diff_paths(x, y, "%s/%d" % (path, i))
        return out
    return [] if a == b else [path]


def lookup_path(obj, path):
    for p in [x for x in path.split("/") if x]:
        p = p.split(" ")[0]
        obj = obj[int(p)] if isinstance(obj, list) else obj[p]
    return obj


def run(ctx):
    status = coqbuild.prove("C10", THEOREMS)
    meta_gen = status["gen"].get("setiter", {})
    rng = ctx.rng
    n = 40 if ctx.quick else 300
    job, fmeta = gen_job(rng, n)
    seeds = [0, 1, 2, 3, "random"] if ctx.quick else list(range(16)) + ["random"] * 4
    work = tempfile.mkdtemp(prefix="verif-c10-job-")
    try:
        jobfile = os.path.join(work, "job.json")
        json.dump(job, open(jobfile, "w"))
        runs = list(run_cases(seed_worker, [(s, jobfile) for s in seeds], chunk=1))
    finally:
        shutil.rmtree(work, ignore_errors=True)
    good = [r for r in runs if "out" in r]
    for r in runs:
        if "out" not in r:
            ctx.violation({"stage": "harness error", "detail": r}, no_input=True)
    n_cmp = 0
    if good:
        ref = good[0]
        for r in good[1:]:
            n_cmp += 1
            dp = diff_paths(ref["out"], r["out"])
            for pth in dp[:3]:
                top = pth.split("/")[1]
                idx = pth.split("/")[2] if len(pth.split("/")) > 2 else "0"
                inp = None
                try:
                    if top == "merge":
                        inp = job["merge"][int(idx)]
                    elif top == "fparse":
                        inp = job["functions"][int(idx)]
                    elif top == "battery":
                        inp = job["sources"][int(idx)]
                    elif top == "phase1":
                        inp = job["fk_model"]
                    else:
                        inp = job["sources"][0] if top == "history" else job["functions_with_body"][0]
                except Exception:  # noqa
                    pass
                ctx.violation({"stage": "fresh processes with different PYTHONHASHSEED" if top != "imports_by_resolver_order" else
                               "fresh processes asking import inference for the two stock resolver orders in opposite order",
                               "clause": "byte-identical output for the same input regardless of the string-hash seed" if top != "imports_by_resolver_order"
                               else "output independent of which other conversions ran earlier in the same process",
                               "input": inp, "where": pth, "seeds": [ref["seed"], r["seed"]],
                               "output_a": lookup_path(ref["out"], pth), "output_b": lookup_path(r["out"], pth)})
        # history
        o = ref["out"]
        if o["history"]["first"] != o["history"]["again"]:
            ctx.violation({"stage": "same process, repeated call after unrelated conversions", "input": job["sources"][0],
                           "clause": "output independent of how many times / which conversions ran before",
                           "first": o["history"]["first"], "again": o["history"]["again"]})
        for src_, b1, b2 in zip(job["sources"], o["battery"], o["history_all"]["again"]):
            if b1 != b2:
                ctx.violation({"stage": "same process, every input converted a second time after all the others", "input": src_,
                               "clause": "output independent of how many times / which conversions ran before",
                               "first": [x for x, y in zip(b1, b2) if x != y][:2], "again": [y for x, y in zip(b1, b2) if x != y][:2]})
                break
        if not o["reuse"]["input_node_unchanged"] or o["reuse"]["after_class_emit"] != o["reuse"]["fresh"]:
            ctx.violation({"stage": "same process, same in-memory node converted to a class and then parsed again",
                           "input": job["functions_with_body"][0],
                           "clause": "output independent of which other conversions ran earlier in the same process",
                           "input_node_unchanged": o["reuse"]["input_node_unchanged"],
                           "after_class_emit": o["reuse"]["after_class_emit"], "fresh": o["reuse"]["fresh"]})
        # model correspondence: merge_params values (any enumeration), function.parse order spec
        args = []
        for other, target in job["merge"]:
            tn = [t[0] for t in target]
            enum = [o_[0] for o_ in other if o_[0] in tn]
            args.append([enum, [[k, v] for k, v in other], [[k, v] for k, v in target]])
        models = call_many("merge_params", args)
        corr_bad = []
        for (other, target), m, impl in zip(job["merge"], models, o["merge"]):
            if m != impl:
                corr_bad.append({"input": [other, target], "impl": impl, "model": m})
        order_bad = []
        for (names, documented), src, ir in zip(fmeta, job["functions"], o["fparse"]):
            if isinstance(ir, str):
                continue
            got = [p[0] for p in ir["params"]]
            want = documented + [x for x in names if x not in documented]
            if got != want:
                order_bad.append({"input": src, "impl_order": got, "spec_order": want})
        for b in order_bad[:3]:
            ctx.violation({"stage": "function parser vs theorem C10_order_spec", "input": b["input"],
                           "clause": "parameter order = documented order followed by undocumented names in signature order",
                           "impl_output": b["impl_order"], "model_output": b["spec_order"]})
        if corr_bad and not ctx.violations:
            ctx.violation({"stage": "correspondence: Model/Merge.v cmerge vs merge_params", "detail": corr_bad[:2]}, no_input=True)
    if not status["ok"] and not ctx.violations:
        ctx.violation({"stage": "proof", "theorem": status.get("failing_theorem"),
                       "ordered_set_iterations_now": meta_gen.get("ordered"),
                       "mutable_defaults_now": meta_gen.get("mutable_defaults"), "global_writers_now": meta_gen.get("global_writers"),
                       "note": "the regenerated inventory contains an order-relevant set iteration (or shared mutable state) that is "
                               "not in the approved list, or a Merge theorem no longer checks; no generated input showed different "
                               "bytes across the seeds tried",
                       "status": {k: status[k] for k in ("theorems", "forbidden", "build_log") if k in status}}, no_input=True)
    cov = {
        "obligations": status["obligations"], "discharged": status["discharged"],
        "checker_cmd": coqbuild.CHECKER_CMD.replace("<id>", "C10"), "theorems": status["theorems"],
        "trusted_base": GLOBAL_TRUSTED_BASE + [
            "translate/setiter.py (syntactic inventory of set iterations, mutable defaults, global writers); the approved list and "
            "its justifications in Properties/C10.v are by inspection",
            "hash randomisation abstracted as 'any permutation of the set'"],
        "set_uses_total": len(meta_gen.get("sites") or []), "ordered_set_iterations": len(meta_gen.get("ordered") or []),
        "evaluations": len(good) * (len(job["merge"]) + len(job["functions"]) + len(job["sources"]) + 3),
        "distinct_nontrivial": len(job["merge"]) + len(job["functions"]) + len(job["sources"]) + 3,
        "rule": "inputs: merge_params dict pairs, functions documenting a subset/permutation of their signature, class/function "
                "sources pushed through every emitter, one model file with several unresolved foreign tables (gen phase 1), one "
                "function re-used across formats in one process; each evaluated in a fresh process per hash seed and compared "
                "byte for byte; distinct inputs counted once",
        "seeds": [str(s) for s in seeds], "seed_comparisons": n_cmp,
        "traces_validated_against_impl": len(job["merge"]) + len(job["functions"]),
        "samples": [job["functions"][0], job["merge"][0]],
        "build": {k: status[k] for k in ("build_s", "forbidden")},
    }
    return ctx.finish("proof", cov, assumptions=["global state outside the inventoried sites is not modelled"])


def replay(ctx, payload):
    return run(ctx)
