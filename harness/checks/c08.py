"""C08 -- one conversion round reaches a fixpoint (the normal form is stable)."""
import re

from .. import coqbuild, gtie, sqltie, edtie, irtools as T
from ..common import CORPUS_SEED, GLOBAL_TRUSTED_BASE
from ..model import call_many
from ..normtools import enc_def, enc_typ, state_of
from ..pool import guarded, run_cases

THEOREMS = ["C08_idempotent", "C08_rounds", "C08_nontrivial_round", "C08_rest_text_fixpoint", "C08_announced_line_fixpoint", "C08_unquote_quote", "C08_quote_refuted", "C08_class_text_fixpoint", "C08_column_round_idempotent", "C08_column_round_example", "C08_google_text_fixpoint", "C08_numpy_text_fixpoint"]
# (tag, format, cfg, IR domain)
CONFIGS = [("docstring-rest", "docstring", {"docstring_format": "rest"}, "any"),
           ("docstring-rest-edd", "docstring", {"docstring_format": "rest", "parse_emit_default_doc": True}, "any"),
           ("docstring-google", "docstring", {"docstring_format": "google"}, "sig"),
           ("docstring-numpydoc", "docstring", {"docstring_format": "numpydoc"}, "sig"),
           ("class", "class", {}, "any"), ("class-edd", "class", {"emit_default_doc": True}, "any"),
           ("pydantic", "pydantic", {}, "any"),
           ("function", "function", {}, "any"), ("function-edd", "function", {"emit_default_doc": True}, "any"),
           ("function-nota", "function", {"type_annotations": False}, "any"),
           ("argparse", "argparse", {}, "any"),
           ("json_schema", "json_schema", {}, "json"),
           ("sqlalchemy", "sqlalchemy", {}, "sql"), ("sqlalchemy_table", "sqlalchemy_table", {}, "sql")]
MODEL_FMT = {"docstring-rest": "docstring", "class": "class", "pydantic": "pydantic", "function": "function", "argparse": "argparse"}


# (none of the parser's ad hoc type words: "number", "of", "or", "path", ... -- those are T.TRIGGER_DOCS)
LONG_WORDS = ["the", "count", "for", "steps", "taken", "before", "estimate", "gradient", "is", "considered", "to", "have", "settled", "over",
              "a", "window", "value", "used", "when", "nothing", "else", "applies", "and", "then"]


def long_doc(rng):
    """a one-sentence description of 70..100 characters: with the announcer appended, the line wraps at or next to "Defaults to" """
    n = rng.randint(70, 100)
    s = rng.choice(LONG_WORDS)
    while len(s) < n:
        s += " " + rng.choice(LONG_WORDS)
    return s[:n].rstrip() + rng.choice(["", ".", ""])


def gen_ir(rng, domain):
    if domain == "sig":
        ir = T.gen_ir(rng, "sig", docs="trigger")
    elif domain == "json":
        ir = T.gen_ir(rng, "common", docs="trigger", suffix_defaults=False)
    elif domain == "sql":
        ir = T.gen_ir(rng, "sql", docs="trigger", suffix_defaults=False, returns=0.0)
    else:
        ir = T.gen_ir(rng, "doc" if rng.random() < 0.5 else "sig", docs="trigger", suffix_defaults=False)
    if rng.random() < 0.3:
        entries = list(ir["params"].values()) + ([ir["returns"]["return_type"]] if ir.get("returns") else [])
        if entries:
            rng.choice(entries)["doc"] = long_doc(rng)
            if ir.get("returns") and rng.random() < 0.5:
                ir["returns"]["return_type"]["doc"] = long_doc(rng)
    if ir["params"] and rng.random() < 0.15:
        e = rng.choice(list(ir["params"].values()))      # prose that trails off: more than one full stop at the end
        e["doc"] = (e.get("doc") or "and so on").rstrip(".") + rng.choice(["..", "...", " etc..."])
    return ir


def coarsen(tag, cls):
    """Google/NumPy docstring rounds drift in so many ways on the pinned tree (defaults move between parameters, types lose
    characters) that only the kind of drift is kept as the class; the 'Defaults to None' re-typing of function-edd likewise."""
    if tag in ("docstring-google", "docstring-numpydoc"):
        if cls.startswith("param/default:"):
            return "param/default-drift"
        if cls.startswith("param/typ") or cls.startswith("param/Optional"):
            return "param/typ-drift"
        if cls.startswith("returns/"):
            return "returns-drift"
        return cls
    m = re.match(r"^param/typ:.*->(Opt-)?str/default-None$", cls)
    if m:
        return "param/typ->%sstr/default-None" % (m.group(1) or "")
    return cls


def rounds_case(arg):
    tag, fmt, cfg, ir, nrounds = arg
    cur = ir
    outs = []
    for r in range(nrounds):
        try:
            cur, _src = T.hop(fmt, cur, cfg)
        except Exception as e:  # noqa
            return {"raised": [r + 1, type(e).__name__, str(e)[:100]], "outs": outs}
        cur = {k: v for k, v in cur.items() if k != "_internal"}
        outs.append(T.jsonable(cur))
    return {"outs": outs, "states": [{k: state_of(v) for k, v in (o.get("params") or {}).items()} for o in outs]}


def worker(batch):
    out = {"n": 0, "items": [], "corr": [], "stable": 0, "changed_in_round1": 0, "corpus_keys": []}
    for entry in batch:
        tag, fmt, cfg, ir, nrounds = entry[:5]
        ckey = entry[5] if len(entry) > 5 else None
        if ckey:
            out["corpus_keys"].append(ckey)
        out["n"] += 1
        st, r = guarded(rounds_case, (tag, fmt, cfg, ir, nrounds), 120)
        if st != "ok":
            out["items"].append(("C08/harness/" + st, {"config": tag, "detail": r, "corpus_key": ckey}, ir))
            continue
        if "raised" in r:
            k = r["raised"][0]
            # a failure in round 1 is not a drift; a failure in a LATER round is (the re-emission of a round-tripped interface)
            out["items"].append(("C08/%s/raises-in-round-%s%s" % (tag, "1" if k == 1 else "n", "" if tag in ("docstring-google", "docstring-numpydoc") else "/" + r["raised"][1]),
                                 {"round": k, "detail": r["raised"], "corpus_key": ckey}, ir))
            continue
        outs = r["outs"]
        if T.jsonable(ir).get("params") != outs[0].get("params"):
            out["changed_in_round1"] += 1
        ok = True
        for k in range(1, len(outs)):
            if outs[k] != outs[k - 1]:
                ok = False
                its = T.compare(outs[k - 1], outs[k])
                if outs[k - 1].get("doc") != outs[k].get("doc"):
                    its.append(("doc", {"in": outs[k - 1].get("doc"), "out": outs[k].get("doc")}))
                if not its:
                    # only the LAYOUT of a type string differs (blanks / line breaks inside a type that was word-wrapped)
                    for pn, pv in (outs[k].get("params") or {}).items():
                        pb = (outs[k - 1].get("params") or {}).get(pn) or {}
                        if pb.get("typ") != pv.get("typ") and "".join((pb.get("typ") or "").split()) == "".join((pv.get("typ") or "").split()):
                            opt = str(pv.get("doc") or "").startswith(("Optional", "(Optional)"))
                            its.append(("param/typ-layout%s" % ("/description-says-Optional" if opt else ""),
                                        {"param": pn, "in": pb.get("typ"), "out": pv.get("typ")}))
                if not its:
                    its = [("other", {"in": outs[k - 1], "out": outs[k]})]
                for cls, det in its:
                    out["items"].append(("C08/%s/%s" % (tag, coarsen(tag, cls)), dict(det, between_rounds=[k, k + 1], corpus_key=ckey), ir))
                break
        if ok:
            out["stable"] += 1
        # model correspondence for the five modelled formats on parameters of the common domain
        if tag in MODEL_FMT:
            qs, names = [], []
            for name, p in ir["params"].items():
                et = enc_typ(p.get("typ") or "")
                # the table does not model doc-derived type inference: only trigger-free descriptions are compared
                if et is not None and p.get("doc") in T.PLAIN_DOCS:
                    qs.append([[MODEL_FMT[tag]] * len(outs), [et, enc_def(p)]])
                    names.append(name)
            if qs:
                for name, m in zip(names, call_many("norm_chain", qs)):
                    for k, states in enumerate(r["states"]):
                        if m[k] is not None and states.get(name) != m[k]:
                            out["corr"].append({"config": tag, "round": k + 1, "param": name, "start": ir["params"][name],
                                                "impl": states.get(name), "model": m[k]})
                            break
    return out


def collect(ctx, n_ir, rounds_max):
    rng = ctx.rng
    work = []
    import random as _random
    crng = _random.Random(CORPUS_SEED)
    for i in range(60):
        for tag, fmt, cfg, dom in CONFIGS:
            ir_c = gen_ir(crng, dom)
            if i < (6 if n_ir < 100 else 60):
                work.append((tag, fmt, cfg, ir_c, 3, "c%d|%s" % (i, tag)))
    LONG_TYPES = ["Union[Tuple[np.ndarray, np.ndarray], Tuple[tf.Tensor, tf.Tensor], Tuple[List[int], List[int]], Dict[str, List[int]]]",
                  "Optional[Union[Tuple[tf.data.Dataset, tf.data.Dataset], Tuple[np.ndarray, np.ndarray], Dict[str, Tuple[int, int]]]]"]
    for i in range(n_ir):
        for tag, fmt, cfg, dom in CONFIGS:
            ir_ = gen_ir(rng, dom)
            if fmt == "docstring" and ir_["params"] and rng.random() < 0.2:
                # a type longer than the wrap column: its `:type` / `name (type):` line is word-wrapped by the emitter
                list(ir_["params"].values())[rng.randrange(len(ir_["params"]))]["typ"] = rng.choice(LONG_TYPES)
            work.append((tag, fmt, cfg, ir_, rng.randint(2, rounds_max)))
    # sweep: a return (and a parameter) description of every length around the wrap column, with a default, so that the emitted
    # "<doc>. Defaults to <x>" line breaks before, inside and after the announcer -- for the formats that re-append and re-strip it
    from collections import OrderedDict
    for L in range(74, 98):
        base = long_doc(rng).rstrip(".")
        while len(base) < L:
            base += " " + rng.choice(LONG_WORDS)
        doc = base[:L].rstrip()
        for tag, fmt, cfg, dom in CONFIGS:
            if tag in ("json_schema", "docstring-rest", "docstring-rest-edd", "function-edd", "class-edd"):
                ir = {"name": "Thing", "doc": "Thing description.",
                      "params": OrderedDict((("alpha", {"typ": "int", "doc": doc, "default": 5}), ("beta", {"typ": "str", "doc": "the name shown to the user"}))),
                      "returns": OrderedDict((("return_type", {"typ": "int", "doc": doc, "default": "```5```"}),))}
                work.append((tag, fmt, cfg, ir, 3))
    agg = {"n": 0, "stable": 0, "changed_in_round1": 0, "ed": 0}
    items, corr = [], []
    QA = ['"', "'", "a", " ", '""', "''", "x y", "`", "'q'", '"q"', "it's", ""]
    qs = ["".join(rng.choice(QA) for _ in range(rng.randint(0, 4))) for _ in range(20 * n_ir)] + QA
    from cdd.shared.pure_utils import unquote as _unquote, quote as _quote
    for q_, m_, mq_ in zip(qs, call_many("unquote", qs), call_many("quote", qs)):
        if _unquote(q_) != m_:
            corr.append({"stage": "unquote", "input": q_, "impl": _unquote(q_), "model": m_})
        if _quote(q_) != mq_:
            corr.append({"stage": "quote", "input": q_, "impl": _quote(q_), "model": mq_})
    n_ed, _found, bad = edtie.compare([(edtie.gen(rng), rng.random() < 0.5) for _ in range(40 * n_ir)])
    agg["ed"] = n_ed
    corr += bad[:3]
    for r in run_cases(worker, [work[i:i + 10] for i in range(0, len(work), 10)], chunk=1):
        if "harness_error" in r:
            items.append(("C08/harness/error", {"detail": r}, None))
            continue
        for k in ("n", "stable", "changed_in_round1"):
            agg[k] += r[k]
        agg.setdefault("corpus_keys", []).extend(r.get("corpus_keys", []))
        items += r["items"]
        corr += r["corr"][:3]
    return agg, items, corr, work


def run(ctx):
    status = coqbuild.prove("C08", THEOREMS)
    agg, items, corr, work = collect(ctx, 25 if ctx.quick else 900, 4)
    for cls, det, ir in items:
        ctx.item(cls, {"stage": "repeated emit -> text -> parse rounds on the implementation", "clause": cls,
                       "input": T.jsonable(ir) if ir else None, "detail": det}, corpus_key=det.get("corpus_key") if isinstance(det, dict) else None)
    # Model/SqlCol.v (C08_column_round_idempotent) against the column emitter / parser
    n_cols, col_bad = sqltie.compare([sqltie.gen(ctx.rng) for _ in range(400 if ctx.quick else 12000)])
    corr += col_bad[:3]
    agg["columns"] = n_cols
    # Model/GoogleEmit.v / Model/NumpyEmit.v (C08_google_text_fixpoint / C08_numpy_text_fixpoint) against the real emitters and parsers
    n_ge, ge_bad = gtie.compare_emit([gtie.gen(ctx.rng) for _ in range(100 if ctx.quick else 3000)])
    n_ne, ne_bad = gtie.compare_emit_numpy([gtie.gen(ctx.rng) for _ in range(100 if ctx.quick else 3000)])
    corr += ge_bad[:3] + ne_bad[:3]
    agg["style_texts"] = n_ge + n_ne
    if not ctx.violations:
        if corr:
            ctx.violation({"stage": "correspondence: Model/Norm.v rounds vs implementation rounds; Model/ExtractDefault.v vs extract_default; Model/SqlCol.v vs the column emitter / parser",
                           "detail": corr[:3],
                           "n_disagreements": len(corr)}, no_input=True)
        elif not status["ok"]:
            ctx.violation({"stage": "proof", "theorem": status.get("failing_theorem"),
                           "status": {k: status[k] for k in ("theorems", "forbidden", "build_log") if k in status}}, no_input=True)
    cov = {
        "obligations": status["obligations"], "discharged": status["discharged"],
        "checker_cmd": coqbuild.CHECKER_CMD.replace("<id>", "C08"), "theorems": status["theorems"],
        "trusted_base": GLOBAL_TRUSTED_BASE + [
            "C08_idempotent is about the measured normal-form table Model/Norm.v (type + default of one parameter, five formats); "
            "descriptions (trigger words, 'Defaults to' sentences), json_schema, sqlalchemy* and Google/NumPy docstrings are covered by "
            "running 2..4 real rounds and comparing round n with round n+1 exactly; the stripping of the announcer (extract_default, text "
            "level) is transcribed in Model/ExtractDefault.v and compared with the implementation on generated lines"],
        "evaluations": agg["n"], "distinct_nontrivial": agg["changed_in_round1"],
        "rule": "IRs incl. descriptions with type-hint trigger words, non-suffix defaults, List/Union/dotted types x 14 format "
                "configurations x 2..4 rounds; non-trivial = the first round changed the parameters (so stability of round 2 is not vacuous)",
        "sequences": agg["n"], "sequences_stable_after_round_1": agg["stable"], "first_round_changed_something": agg["changed_in_round1"],
        "extract_default_cases": agg["ed"], "columns_compared_with_model": agg["columns"], "google_numpy_texts_compared_with_model": agg["style_texts"], "corpus_sequences_run": len(agg.get("corpus_keys", [])),
        "model_disagreements": len(corr), "traces_validated_against_impl": agg["n"] + agg["ed"],
        "samples": [T.jsonable(work[0][3]), work[0][0]],
        "build": {k: status[k] for k in ("build_s", "forbidden")},
    }
    return ctx.finish("proof", cov, assumptions=["descriptions are compared exactly between rounds on the implementation only"])


def replay(ctx, payload):
    return run(ctx)
