"""C05 -- SQLAlchemy class, Table and hybrid forms round-trip and agree."""
import ast
import re
import contextlib
import copy
import io
from collections import OrderedDict

from .. import coqbuild, irtools as T
from ..common import CORPUS_SEED, GLOBAL_TRUSTED_BASE
from .. import sqltie
from ..model import call_many
from ..pool import guarded, run_cases

THEOREMS = ["C05_one_pk", "C05_examples", "C05_variants_share_the_column_source", "C05_column_roundtrip", "C05_column_pk_marker", "C05_column_fk_marker", "C05_column_default", "C05_column_optional_none", "C05_column_refuted"]
VARIANTS = ("sqlalchemy", "sqlalchemy_table", "sqlalchemy_hybrid")
STYLES = ("rest", "google", "numpydoc")
COLNAMES = ["size", "label", "active", "ratio", "note", "count", "dataset_name", "user_id", "id", "id_code", "title", "weight", "_rev", "_hidden"]
DOCS = ["how big", "the label", "Primary key of the account", "account number", "the ratio", "a note", "Key of the thing"]


def gen_ir(rng):
    n = rng.randint(1, 6)
    names = rng.sample(COLNAMES, n)
    params = OrderedDict()
    pk_given = False
    for nm in names:
        k = rng.random()
        base = rng.choice(["int", "float", "str", "bool"])
        if k < 0.55:
            t = base
        elif k < 0.65:
            t = "dict"
        elif k < 0.85:
            t = "Optional[%s]" % base
        else:
            mem = rng.sample(["a", "b", "np", "tf", "low", "medium", "high"], rng.randint(2, 3))
            t = "Literal[%s]" % ", ".join("'%s'" % m for m in (sorted(mem) if rng.random() < 0.5 else mem))
        doc = rng.choice(DOCS)
        if not pk_given and rng.random() < 0.25:
            doc = rng.choice(["[PK]", "[PK] " + doc])
            pk_given = True
        elif rng.random() < 0.12:
            doc = "[FK(users.id)] " + doc
        p = {"typ": t, "doc": doc}
        if not t.startswith("Optional[") and t in ("int", "float", "str", "bool") and rng.random() < 0.4:
            p["default"] = {"int": rng.choice([5, 0]), "float": rng.choice([0.5, -0.5]), "str": rng.choice(["x", ""]), "bool": rng.choice([True, False])}[t]
        elif t.startswith("Optional[") and rng.random() < 0.4:
            p["default"] = T.NoneStr        # `x: Optional[str] = None`
        params[nm] = p
    return {"name": "Thing", "doc": rng.choice(["Thing table.", "Summary.\n\nMore about the table."]), "params": params, "returns": None}


def count_pks(src):
    n = 0
    for node in ast.walk(ast.parse(src)):
        if isinstance(node, ast.Call) and getattr(node.func, "id", getattr(node.func, "attr", None)) == "Column":
            for k in node.keywords:
                if k.arg == "primary_key" and isinstance(k.value, ast.Constant) and k.value.value is True:
                    n += 1
    return n


def emit_and_parse(variant, ir, style, force):
    import cdd.sqlalchemy.emit, cdd.sqlalchemy.parse
    from cdd.shared.source_transformer import to_code
    with contextlib.redirect_stderr(io.StringIO()):
        kw = {"name": ir["name"]} if variant == "sqlalchemy_table" else {}
        node = getattr(cdd.sqlalchemy.emit, variant)(copy.deepcopy(ir), docstring_format=style, force_pk_id=force, **kw)
        src = to_code(node)
        tree = ast.parse(src)
        if variant == "sqlalchemy_hybrid":
            # the hybrid parser cannot read the hybrid emission on the pinned tree (known finding): read its __table__
            tbl = next(s for s in tree.body[0].body if isinstance(s, ast.Assign) and getattr(s.targets[0], "id", "") == "__table__")
            out = cdd.sqlalchemy.parse.sqlalchemy_table(tbl.value)
            try:
                cdd.sqlalchemy.parse.sqlalchemy_hybrid(tree.body[0])
                hybrid_parse = "ok"
            except Exception as e:  # noqa
                hybrid_parse = type(e).__name__
        else:
            out = getattr(cdd.sqlalchemy.parse, variant)(tree.body[0])
            hybrid_parse = None
    return src, out, hybrid_parse


def strip_pk(ir):
    """the [PK] marker is compared through the primary_key count; descriptions are compared without it"""
    ir = copy.deepcopy(ir)
    for p in (ir.get("params") or {}).values():
        d = p.get("doc")
        if isinstance(d, str) and d.startswith("[PK]"):
            p["doc"] = d[4:].lstrip()
    return ir


def cols(ir):
    return [(k, v.get("typ"), repr(v.get("default")) if "default" in v else "<absent>", T.norm_doc(v.get("doc")))
            for k, v in (ir.get("params") or {}).items()]


def check_case(ir):
    """-> (items, emissions, loci): every item carries det["locus"] = "<variant/style/force>|<parameter or ->"; [loci] lists every locus
    that was evaluated (for the fixed corpus: a locus without item is a clean entry)"""
    items, n = [], 0
    loci = []
    pnames = [k for k in ir["params"] if k != "id"]
    for style in STYLES:
        for force in (False, True):
            outs = {}
            loci.append("variants/%s/%s|-" % (style, "force" if force else "noforce"))
            for v in VARIANTS:
                tag = "%s/%s/%s" % (v, style, "force" if force else "noforce")
                loci += ["%s|%s" % (tag, pn) for pn in pnames + ["-"]]
                try:
                    src, out, hp = emit_and_parse(v, ir, style, force)
                except Exception as e:  # noqa
                    items.append(("C05/%s/raises/%s" % (tag, type(e).__name__), {"error": str(e)[:120], "locus": tag + "|-"}))
                    continue
                n += 1
                if hp not in (None, "ok"):
                    items.append(("C05/%s/hybrid-parser-raises/%s" % (v, hp), {"config": tag, "locus": None}))
                k = count_pks(src)
                if k != 1:
                    items.append(("C05/%s/primary-keys-%s" % (tag, "none" if k == 0 else "several"), {"count": k, "source": src[:400], "locus": tag + "|-"}))
                outs[v] = out
                # round trip vs the description (+ the primary key that ensure_has_primary_key adds)
                for cls, det in T.compare(strip_pk(ir), strip_pk(out)):
                    if cls.startswith("names/extra"):
                        extra = [x for x in det["out"] if x not in det["in"]]
                        if extra == ["id"]:
                            continue        # the forced / inferred surrogate key is the documented normalisation
                    # a column called `id` is taken for the surrogate key and re-typed: its own family of classes
                    idc = "/id-column" if det.get("param") == "id" else ""
                    items.append(("C05/roundtrip/%s%s" % (cls, idc), dict(det, config=tag, locus="%s|%s" % (tag, det.get("param") if det.get("param") in pnames else "-"))))
                # Enum members keep their order (the generic comparison treats Literal members as a set)
                for k, p_in in strip_pk(ir)["params"].items():
                    p_out = (strip_pk(out).get("params") or {}).get(k)
                    ta, tb = p_in.get("typ") or "", (p_out or {}).get("typ") or ""
                    ma, mb = re.findall(r"'([^']*)'", ta), re.findall(r"'([^']*)'", tb)
                    if "Literal[" in ta and "Literal[" in tb and sorted(ma) == sorted(mb) and ma != mb:
                        items.append(("C05/roundtrip/param/literal-member-order", {"param": k, "in": ta, "out": tb, "config": tag, "locus": "%s|%s" % (tag, k)}))
            # a description that a SQLAlchemy parser produced (it carries the parser's extension key) is a description too: written as
            # the other variant and read back, it must come back as it was
            for a, b in (("sqlalchemy", "sqlalchemy_table"), ("sqlalchemy_table", "sqlalchemy")):
                if a not in outs:
                    continue
                tag = "%s->%s/%s/%s" % (a, b, style, "force" if force else "noforce")
                loci.append(tag + "|-")
                first = copy.deepcopy(outs[a])
                first["name"] = first.get("name") or ir["name"]
                try:
                    _src2, second, _hp = emit_and_parse(b, first, style, force)
                except Exception as e:  # noqa
                    items.append(("C05/parsed-description/raises/%s" % type(e).__name__, {"error": str(e)[:120], "config": tag, "locus": tag + "|-"}))
                    continue
                n += 1
                for cls, det in T.compare(strip_pk(first), strip_pk(second)):
                    idc = "/id-column" if det.get("param") == "id" else ""
                    items.append(("C05/parsed-description/%s%s" % (cls, idc), dict(det, config=tag, locus=tag + "|-")))
            # interchangeability: the three emissions of one interface parse to the same columns
            keys = [v for v in VARIANTS if v in outs]
            for a, b in zip(keys, keys[1:]):
                if cols(outs[a]) != cols(outs[b]):
                    diff = [x for x in zip(cols(outs[a]), cols(outs[b])) if x[0] != x[1]][:2]
                    what = "names" if [c[0] for c in cols(outs[a])] != [c[0] for c in cols(outs[b])] else \
                        "typ" if [c[1] for c in cols(outs[a])] != [c[1] for c in cols(outs[b])] else \
                        "default" if [c[2] for c in cols(outs[a])] != [c[2] for c in cols(outs[b])] else "doc"
                    items.append(("C05/variants-disagree/%s-vs-%s/%s/%s/%s" % (a, b, style, "force" if force else "noforce", what),
                                  {"diff": diff, a: cols(outs[a]), b: cols(outs[b]), "locus": "variants/%s/%s|-" % (style, "force" if force else "noforce")}))
    return items, n, loci


def worker(batch):
    from cdd.sqlalchemy.utils.emit_utils import ensure_has_primary_key
    out = {"n": 0, "emissions": 0, "items": [], "corr": [], "corpus_keys": []}
    pkq, pki = [], []
    for ir in batch:
        cid = None
        if isinstance(ir, tuple):       # an entry of the fixed corpus
            cid, ir = ir
        out["n"] += 1
        st, v = guarded(check_case, ir, 120)
        if st != "ok":
            out["items"].append(("C05/harness/" + st, {"detail": v}, ir))
            continue
        items, n, loci = v
        out["emissions"] += n
        if cid:
            out["corpus_keys"] += ["%s|%s" % (cid, l) for l in loci]
        for cls, det in items:
            ck = "%s|%s" % (cid, det["locus"]) if cid and isinstance(det, dict) and det.get("locus") else None
            out["items"].append((cls, dict(det, corpus_key=ck), ir))
        for force in (False, True):
            pkq.append([force, [[k, p.get("doc", "")] for k, p in ir["params"].items()]])
            try:
                r = ensure_has_primary_key(copy.deepcopy(ir), force_pk_id=force)
                pki.append([[k, p.get("doc", "")] for k, p in r["params"].items()])
            except Exception as e:  # noqa
                pki.append("RAISED " + type(e).__name__)
    for q, m, i in zip(pkq, call_many("ensure_pk", pkq), pki):
        if m != i:
            out["corr"].append({"input": q, "impl": i, "model": m})
    return out


def collect(ctx, n_ir, _unused=0):
    rng = ctx.rng
    irs = [gen_ir(rng) for _ in range(n_ir)]
    import random as _random
    crng = _random.Random(CORPUS_SEED)
    corpus_irs = [("c%d" % i, gen_ir(crng)) for i in range(300)]
    irs_all = corpus_irs[: (20 if n_ir < 200 else 300)] + irs
    agg = {"n": 0, "emissions": 0}
    items, corr = [], []
    for r in run_cases(worker, [irs_all[i:i + 5] for i in range(0, len(irs_all), 5)], chunk=1):
        if "harness_error" in r:
            items.append(("C05/harness/error", {"detail": r}, None))
            continue
        for k in [k_ for k_ in agg if k_ != "corpus_keys"]:
            agg[k] += r[k]
        agg.setdefault("corpus_keys", []).extend(r.get("corpus_keys", []))
        items += r["items"]
        corr += r["corr"][:3]
    return agg, items, corr, irs


def run(ctx):
    status = coqbuild.prove("C05", THEOREMS)
    agg, items, corr, irs = collect(ctx, 50 if ctx.quick else 2100)
    for cls, det, ir in items:
        ctx.item(cls, {"stage": "emit -> source -> parse of the three SQLAlchemy variants", "clause": cls, "input": T.jsonable(ir) if ir else None,
                       "detail": det}, corpus_key=det.get("corpus_key") if isinstance(det, dict) else None)
    n_cols, col_bad = sqltie.compare([sqltie.gen(ctx.rng) for _ in range(600 if ctx.quick else 20000)])
    corr += col_bad[:3]
    if not ctx.violations:
        if corr:
            ctx.violation({"stage": "correspondence: Model/SqlPk.v ensure_pk vs ensure_has_primary_key; Model/SqlCol.v vs the column emitter / parser", "detail": corr[:3],
                           "n_disagreements": len(corr)}, no_input=True)
        elif not status["ok"]:
            ctx.violation({"stage": "proof", "theorem": status.get("failing_theorem"),
                           "status": {k: status[k] for k in ("theorems", "forbidden", "build_log") if k in status}}, no_input=True)
    cov = {
        "obligations": status["obligations"], "discharged": status["discharged"],
        "checker_cmd": coqbuild.CHECKER_CMD.replace("<id>", "C05"), "theorems": status["theorems"],
        "trusted_base": GLOBAL_TRUSTED_BASE + [
            "only primary-key inference is modelled; column construction (type map, Enum, nullable, FK markers) and the three parsers are "
            "compared on the implementation: same columns from the three emissions, exactly one primary_key=True Column per emission, "
            "round trip against the description with recorded classes"],
        "evaluations": agg["emissions"], "distinct_nontrivial": agg["n"],
        "rule": "SQL-representable IRs (int/float/str/bool/dict, Optional, Literal; 0..1 [PK] marker, [FK(..)] markers, candidate key names "
                "such as dataset_name/user_id/id) x 3 variants x 3 docstring styles x force_pk_id",
        "interfaces": agg["n"], "emissions_parsed_back": agg["emissions"], "model_disagreements": len(corr), "columns_compared_with_model": n_cols,
        "traces_validated_against_impl": agg["n"] * 2,
        "samples": [T.jsonable(irs[0])],
        "build": {k: status[k] for k in ("build_s", "forbidden")},
    }
    return ctx.finish("proof", cov, assumptions=["the hybrid emission is read through its __table__ (its own parser fails on the pinned tree)"])


def replay(ctx, payload):
    return run(ctx)
