"""C11 -- every parse, emit and doctrans call terminates (in time proportional to its input)."""
import itertools
import os
import shutil
import subprocess
import sys
import tempfile

from .. import coqbuild
from ..common import GLOBAL_TRUSTED_BASE, REPO
from ..model import call_many
from ..pool import guarded, run_cases

THEOREMS = ["C11_emit_skip_loop_terminates", "C11_last_idx_back_loop_terminates", "C11_last_idx_forward_loop_terminates",
            "C11_numpydoc_lines_loop_terminates", "C11_union_phase0_loop_terminates", "C11_find_in_ast_loop_terminates",
            "C11_emit_skip_linear", "C11_inventory", "C11_inventory_nonempty"]

# token alphabet of the quantifier: section markers, names, types, backticks, colons, newlines, indentation
ALPHA = ["\n", "    ", " ", "\t", ":param x:", ":type x:", ":return:", ":rtype:", "Args:", "Returns:", "Raises:", "Parameters\n----------",
         "Returns\n-------", "x", "x : int", "int", "```int```", "`a`", ":", "Defaults to 5", " or ", " of ", "'a'", '"b",', "List",
         "--", "   \n",
         # a heading without its underline / body (a docstring cut off after the heading), an entry cut off after its colon, a summary line
         "Parameters", "Returns", "x :", "Summary line.\n\n", "----------"]
WATCHDOG = 3.0


def calls_on_text(text):
    """Every public docstring-level entry point on one text; returns number of calls that returned (others raised)."""
    import contextlib
    import io
    import cdd.docstring.parse
    import cdd.docstring.emit
    from cdd.shared.docstring_parsers import parse_docstring
    from cdd.shared import docstring_utils as du
    from cdd.shared.cst import cst_parse
    from cdd.docstring.utils.parse_utils import parse_adhoc_doc_for_typ

    n = 0
    with contextlib.redirect_stderr(io.StringIO()):
        irs = []
        for kw in ({}, {"emit_default_doc": True}, {"parse_original_whitespace": True}):
            try:
                irs.append(parse_docstring(text, **kw))
                n += 1
            except Exception:  # noqa
                pass
        for f in (du._get_token_start_idx, du._get_token_last_idx, cst_parse,
                  lambda t: du.parse_docstring_into_header_args_footer(t, t),
                  lambda t: du.ensure_doc_args_whence_original(t + " ", t),
                  lambda t: parse_adhoc_doc_for_typ(t, "x", False)):
            try:
                f(text)
                n += 1
            except Exception:  # noqa
                pass
        for ir in irs[:2]:
            for style in ("rest", "google", "numpydoc"):
                for lvl in (0, 1, 2):
                    for orig in (False, True):
                        ir2 = dict(ir)
                        ir2["_internal"] = {"original_doc_str": text} if orig else {}
                        for eow in (False, True):
                            try:
                                cdd.docstring.emit.docstring(ir2, docstring_format=style, indent_level=lvl,
                                                             emit_original_whitespace=eow)
                                n += 1
                            except Exception:  # noqa
                                pass
        # interface descriptions with arbitrary prose
        for style in ("rest", "google", "numpydoc"):
            for lvl in (0, 1, 2):
                for eow in (False, True):
                    try:
                        cdd.docstring.emit.docstring({"name": "f", "doc": text, "params": {"a": {"doc": text, "typ": "int"}},
                                                      "returns": None}, docstring_format=style, indent_level=lvl,
                                                     emit_original_whitespace=eow)
                        n += 1
                    except Exception:  # noqa
                        pass
    return n


def text_worker(batch):
    out = {"n": len(batch), "timeouts": [], "returned_calls": 0, "harness": []}
    for t in batch:
        if len(out["timeouts"]) >= 2:
            break   # enough failing inputs from this batch; keep the check's wall time bounded
        st, v = guarded(calls_on_text, t, WATCHDOG)
        if st == "timeout":
            out["timeouts"].append(t)
        elif st == "ok":
            out["returned_calls"] += v
        else:
            out["harness"].append((t, v))
    return out


# ---- iteration-count correspondence (sys.settrace on the loop header lines) -------------------------------------------
def traced_counts(text):
    """Run the two loops whose dynamics are modelled exactly, counting evaluations of the `while` header line."""
    import contextlib
    import io
    import sys as _sys
    import cdd.docstring.emit as em
    import cdd.docstring.utils.parse_utils as pu

    res = {}
    targets = {}
    for mod, fn in ((em, "docstring"), (pu, "_union_literal_from_sentence_phase0")):
        import ast
        import inspect
        src = inspect.getsource(mod)
        for node in ast.walk(ast.parse(src)):
            if isinstance(node, ast.FunctionDef) and node.name == fn:
                for w in ast.walk(node):
                    if isinstance(w, ast.While):
                        targets[(mod.__file__, w.lineno)] = fn
    counts = {}
    captured = {}

    serial = [0]

    def tracer(frame, event, arg):
        if event == "call":
            co = frame.f_code
            if any(co.co_filename == f for f, _ in targets) and co.co_name in ("docstring", "_union_literal_from_sentence_phase0"):
                serial[0] += 1
                return make_local(serial[0])
        return None

    def make_local(k):
        def local(frame, event, arg):
            if event == "line":
                key = (frame.f_code.co_filename, frame.f_lineno)
                if key in targets:
                    fn = targets[key]
                    inst = (fn, k)
                    counts[inst] = counts.get(inst, 0) + 1
                    if inst not in captured:
                        captured[inst] = frame.f_locals.get("candidate_doc_str" if fn == "docstring" else "sentence")
            return local
        return local

    with contextlib.redirect_stderr(io.StringIO()):
        _sys.settrace(tracer)
        try:
            try:
                pu._union_literal_from_sentence_phase0(text, [[]])
            except Exception:  # noqa
                pass
            for lvl in (0, 1):
                try:
                    em.docstring({"name": "f", "doc": text, "params": {}, "returns": None}, indent_level=lvl)
                except Exception:  # noqa
                    pass
        finally:
            _sys.settrace(None)
    out = []
    for inst, c in counts.items():
        out.append([inst[0], captured.get(inst), c])
    return out


def trace_worker(batch):
    out = {"n": 0, "mismatch": [], "l1": 0, "l5": 0, "max_ratio": 0.0}
    obs = []
    nto = 0
    for t in batch:
        if nto >= 2:
            break
        st, v = guarded(traced_counts, t, WATCHDOG * 3)
        if st == "timeout":
            nto += 1
        if st == "ok":
            obs += [o for o in v if isinstance(o[1], str)]
    l5 = [o for o in obs if o[0] != "docstring"]
    l1 = [o for o in obs if o[0] == "docstring"]
    m5 = call_many("l5_iterations", [o[1] for o in l5]) if l5 else []
    m1 = call_many("l1_iterations", [o[1] for o in l1]) if l1 else []
    for o, m in list(zip(l5, m5)) + list(zip(l1, m1)):
        out["n"] += 1
        out["l5" if o[0] != "docstring" else "l1"] += 1
        # header evaluations = completed iterations + 1 (the evaluation that ends the loop, by condition or by break)
        if m is None or o[2] != m + 1:
            out["mismatch"].append({"loop": o[0], "input": o[1], "impl_header_evaluations": o[2], "model_iterations": m})
        out["max_ratio"] = max(out["max_ratio"], o[2] / (len(o[1]) + 2.0))
    return out


# ---- doctrans applied 1..3 times ---------------------------------------------------------------------------------------
MODULE = '''"""module doc"""


class K(object):
    """
    K class

    :cvar x: the x. Defaults to 5
    """

    x: int = 5

    def meth(self, a, b=2):
        """
        meth doc%s

        :param a: the a
        :type a: ```int```

        :param b: the b
        :type b: ```int```

        :return: sum
        :rtype: ```int```
        """
        return a + b


def top(q: float = 0.5) -> int:
    """
    top doc

    %s
    """
    return 1
'''


# a top-level function whose parameter is named like a method that encloses a local assignment (the path search of find_in_ast walks
# over the parameter while looking for the method's owner)
MODULE2 = '''"""m2"""


def retry(run, times=3):
    """
    Retry it

    :param run: what to run

    :param times: how often
    """
    return run


class Job(object):
    """
    A job
    """

    def run(self):
        """
        Run it

        :return: outcome
        """
        outcome = 5
        return outcome

    def times(self, run=None):
        """
        Count

        :param run: which run
        """
        count: int = 2
        return count
'''


def doctrans_case(arg):
    seed, extra = arg
    import random
    rng = random.Random(seed)
    d = tempfile.mkdtemp(prefix="verif-c11-")
    res = {"seed": seed, "timeouts": [], "runs": 0}
    try:
        fn = os.path.join(d, "m.py")
        open(fn, "w").write(MODULE2 if extra == "MODULE2" else MODULE % (rng.choice(["", "\n        ", "\n\n        more"]), extra))
        env = dict(os.environ, PYTHONPATH=REPO, PYTHONHASHSEED="0", PYTHONDONTWRITEBYTECODE="1")
        for k in range(3):
            fmt = rng.choice(["rest", "google", "numpydoc"])
            ta = rng.choice(["--type-annotations", "--no-type-annotations"])
            try:
                subprocess.run([sys.executable, "-W", "ignore", "-m", "cdd", "doctrans", "--filename", fn, "--format", fmt, ta],
                               env=env, cwd=d, timeout=60, stdout=subprocess.PIPE, stderr=subprocess.PIPE)
                res["runs"] += 1
            except subprocess.TimeoutExpired:
                res["timeouts"].append({"round": k + 1, "format": fmt, "flag": ta, "file": open(fn).read()})
                break
    finally:
        shutil.rmtree(d, ignore_errors=True)
    return res


def gen_texts(ctx):
    rng = ctx.rng
    L = 2 if ctx.quick else 3
    texts = [""] + ["".join(p) for k in range(1, L + 1) for p in itertools.product(ALPHA, repeat=k)]
    if ctx.quick:
        keep = [t for t in texts if len(t) < 3 or rng.random() < 0.6]
        texts = keep
    n_rand = 400 if ctx.quick else 6000
    for _ in range(n_rand):
        texts.append("".join(rng.choice(ALPHA) for _ in range(rng.randint(3, 14))))
    # every prefix of a complete docstring of each style (a docstring cut off at any character: mid-heading, after a colon, mid-type),
    # flush-left and indented
    for full in FULL_DOCSTRINGS:
        for ind in ("", "    "):
            body = "\n".join(ind + l if l else l for l in full.split("\n"))
            for k in range(1, len(body) + 1):
                if ctx.quick and k % 2 and body[k - 1] not in ":-\n":
                    continue
                texts.append(body[:k])
    # column-aligned prose: a long run of blanks (or a line break followed by deep indentation) after each word the parsers and
    # emitters look for -- the input family on which a backtracking matcher, or a scan that restarts, stops being linear
    for word in ("defaults", "Defaults", "Defaults to", "default", "Default value", "is", "of", "or", "int", "`", "```", ":"):
        for pad in (" " * 30, " " * 44, "\n" + " " * 60, "\t" * 40):
            for tail in ("are used", "to 5", "", "\n"):
                for head in (":param x: library ", "x : int\n    library ", ""):
                    texts.append(head + word + pad + tail)
    return list(dict.fromkeys(texts))


FULL_DOCSTRINGS = ["Scale x.\n\nParameters\n----------\nx : float\n    the value\nfactor : int\n    the factor\n\nReturns\n-------\nfloat\n    scaled\n",
                   "Scale x.\n\n:param x: the value\n:type x: ```float```\n\n:return: scaled\n:rtype: ```float```\n",
                   "Scale x.\n\nArgs:\n  x (float): the value\n  factor (int): the factor\n\nReturns:\n  float: scaled\n"]


def run(ctx):
    status = coqbuild.prove("C11", THEOREMS)
    meta = status["gen"].get("loops", {})
    texts = gen_texts(ctx)
    batches = [texts[i:i + 40] for i in range(0, len(texts), 40)]
    agg = {"n": 0, "returned_calls": 0}
    suspects = []
    for r in run_cases(text_worker, batches, chunk=1):
        if "harness_error" in r:
            ctx.violation({"stage": "harness error", "detail": r}, no_input=True)
            continue
        agg["n"] += r["n"]
        agg["returned_calls"] += r["returned_calls"]
        for t in r["timeouts"][:3]:
            suspects.append(t)
        for t, v in r["harness"][:1]:
            ctx.violation({"stage": "harness error", "detail": [t, v]}, no_input=True)
    # a watchdog expiry in a loaded worker is only a suspicion: it is confirmed alone, with a ten times longer limit
    confirmed = 0
    for t in suspects[:12]:
        if confirmed >= 3:
            break
        st, _v = guarded(calls_on_text, t, WATCHDOG * 10)
        if st == "timeout":
            confirmed += 1
            ctx.violation({"stage": "watchdog (%.0f s in a worker, then %.0f s alone) on docstring-level entry points" % (WATCHDOG, WATCHDOG * 10),
                           "input": {"text": t}, "clause": "a public parser/emitter did not return or raise on this text (ms expected)"})
    agg["watchdog_suspects"] = len(suspects)
    agg["watchdog_confirmed"] = confirmed
    tb = [texts[i:i + 60] for i in range(0, len(texts), 60)]
    if ctx.quick:
        tb = tb[: max(4, len(tb) // 3)]
    tr = {"n": 0, "l1": 0, "l5": 0, "mismatch": [], "max_ratio": 0.0}
    for r in run_cases(trace_worker, tb, chunk=1):
        if "harness_error" in r:
            ctx.violation({"stage": "harness error", "detail": r}, no_input=True)
            continue
        for k in ("n", "l1", "l5"):
            tr[k] += r[k]
        tr["mismatch"] += r["mismatch"][:3]
        tr["max_ratio"] = max(tr["max_ratio"], r["max_ratio"])
    extras = ["", ":param q: the q\n    :type q: ```float```", "Args:\n      q (float): the q", "   \n    trailing"]
    dcases = [(ctx.rng.randrange(1 << 30), extras[i % len(extras)]) for i in range(6 if ctx.quick else 40)]
    dcases += [(ctx.rng.randrange(1 << 30), "MODULE2") for _ in range(2 if ctx.quick else 6)]
    druns = list(run_cases(doctrans_case, dcases, chunk=1))
    for d in druns:
        for t in d.get("timeouts", [])[:1]:
            ctx.violation({"stage": "doctrans applied repeatedly (60 s limit)", "input": t,
                           "clause": "applying doctrans again to its own output terminates"})
    if not ctx.violations:
        if tr["mismatch"]:
            m = tr["mismatch"][0]
            ctx.violation({"stage": "correspondence: iteration counts of the modelled loops (sys.settrace) vs Model/Loops.v",
                           "input": m["input"], "impl_output": m["impl_header_evaluations"], "model_output": m["model_iterations"],
                           "loop": m["loop"], "n_disagreements": len(tr["mismatch"])}, no_input=True)
        elif not status["ok"]:
            ctx.violation({"stage": "proof", "theorem": status.get("failing_theorem"), "while_loops_now": [l["key"] for l in meta.get("loops", [])],
                           "self_recursive_now": meta.get("self_recursive"),
                           "note": "a `while` loop of the package is new or its body was edited (no termination lemma covers it any "
                                   "more), or a loop theorem no longer checks; the watchdog found no hanging input",
                           "status": {k: status[k] for k in ("theorems", "forbidden", "build_log") if k in status}}, no_input=True)
    cov = {
        "obligations": status["obligations"], "discharged": status["discharged"],
        "checker_cmd": coqbuild.CHECKER_CMD.replace("<id>", "C11"), "theorems": status["theorems"],
        "trusted_base": GLOBAL_TRUSTED_BASE + [
            "translate/loops.py (inventory of while statements and directly self-recursive functions)",
            "the loop models transcribe the index arithmetic that drives each loop condition; for/comprehension loops over finite "
            "sequences, recursion over AST children and CPython builtins are taken to terminate",
            "'time proportional to the size' is proved as a linear bound on loop iterations, observed (not proved) as wall clock"],
        "evaluations": agg["n"] + tr["n"] + len(druns), "distinct_nontrivial": len([t for t in texts if len(t) > 1]),
        "rule": "texts: all sequences up to length %d over a %d-token docstring alphabet (quick: 60%% sample of length 2) plus random "
                "longer ones; each through every docstring-level parser/emitter configuration under a %.0f s watchdog; iteration "
                "counts of two modelled loops compared with sys.settrace; doctrans applied 3 times to generated modules" %
                (2 if ctx.quick else 3, len(ALPHA), WATCHDOG),
        "texts": agg["n"], "calls_that_returned": agg["returned_calls"], "watchdog_suspects": agg["watchdog_suspects"], "watchdog_confirmed": agg["watchdog_confirmed"], "loop_instances_compared": tr["n"],
        "l1_instances": tr["l1"], "l5_instances": tr["l5"], "max_header_evaluations_per_char": round(tr["max_ratio"], 3),
        "doctrans_sequences": len(druns), "traces_validated_against_impl": tr["n"],
        "while_loops": [l["key"] for l in meta.get("loops", [])],
        "samples": [texts[5], texts[len(texts) // 2], texts[-1]],
        "build": {k: status[k] for k in ("build_s", "forbidden")},
    }
    return ctx.finish("proof", cov, assumptions=["wall-clock proportionality is observed, not proved"])


def replay(ctx, payload):
    inp = payload.get("input") or {}
    if isinstance(inp, dict) and "text" in inp:
        st, v = guarded(calls_on_text, inp["text"], WATCHDOG)
        print(st, v)
        return 1 if st == "timeout" else 0
    return run(ctx)
