"""C12 -- sync makes every target equivalent to the truth, then is a no-op."""
import ast
import contextlib
import copy
import io
import os
import shutil
import tempfile
from collections import OrderedDict

from .. import coqbuild, irtools as T
from ..common import GLOBAL_TRUSTED_BASE
from .. import fatie
from ..model import call_many
from ..pool import guarded, run_cases

THEOREMS = ["C12_outside_unchanged", "C12_created_equiv", "C12_class_target_equiv", "C12_idempotent_partial",
            "C12_function_target_refuted", "C12_append_refuted", "C12_cmp_ast_only_equal", "C12_cmp_ast_reflexive",
            "C12_cmp_ast_lists_same_length", "C12_cmp_ast_prefix_example", "C12_target_lookup", "C12_target_lookup_refuted"]
KINDS = ("class", "function", "argparse_function")
NAMES = {"class": "ConfigClass", "function": "train", "argparse_function": "set_cli_args"}
BEFORE = ["import os\n\nCONSTANT_A = 1\n", "", "def helper_before(q, r=2):\n    return q\n", "class Unrelated(object):\n    z: int = 1\n",
          "from typing import List, Optional\nfrom upstream.config import ConfigClass as UpstreamConfigClass, train as upstream_train\n"]
AFTER = ["", "\n\ndef helper_after(k):\n    return k\n", "\n\nCONSTANT_Z = 26\n", "\n\n{name} = register({name})\n"]


def drop_docs(ir):
    ir = copy.deepcopy(ir)
    ir["doc"] = ""
    for p in ir["params"].values():
        p.pop("doc", None)
    return ir


def prefix_of(ir):
    """the same interface without its last parameter (None when it has only one)"""
    if len(ir["params"]) < 2:
        return None
    out = copy.deepcopy(ir)
    out["params"].popitem()
    return out


def gen_ir(rng):
    n = rng.randint(1, 4)
    names = rng.sample(T.NAMES, n)
    params = OrderedDict()
    k_nodefault = rng.choice([0, 0, 1, 2])
    for i, nm in enumerate(names):
        if i < k_nodefault:      # required parameters first (signature-legal)
            params[nm] = {"typ": rng.choice(["List[int]", "int", "str", "List[str]"]), "doc": rng.choice(T.PLAIN_DOCS)}
            continue
        t = rng.choice(["int", "str", "float", "bool", "Optional[int]", "Literal"])
        if t == "Literal":
            mem = rng.sample(["slow", "fast", "medium", "np", "tf"], rng.randint(2, 3))      # members in the order written, not sorted
            params[nm] = {"typ": "Literal[%s]" % ", ".join("'%s'" % m for m in mem), "doc": rng.choice(T.PLAIN_DOCS), "default": mem[0]}
            continue
        inner = t[9:-1] if t.startswith("Optional[") else t
        params[nm] = {"typ": t, "doc": rng.choice(T.PLAIN_DOCS),
                      "default": {"int": rng.choice([0, 5, 42]), "str": rng.choice(["x", "hello"]), "float": rng.choice([0.5, 2.25]),
                                  "bool": rng.choice([True, False])}[inner]}
    if rng.random() < 0.2:
        # a one-line description longer than the word wrapper's width
        e = rng.choice(list(params.values()))
        e["doc"] = "the rate at which the value is allowed to change between two consecutive steps, so keep it small enough for the run to stay stable"
    return {"name": "ConfigClass", "doc": "Thing description.", "params": params, "returns": None}


def emit_src(kind, ir):
    import cdd.argparse_function.emit, cdd.class_.emit, cdd.function.emit
    from cdd.shared.source_transformer import to_code
    ir = copy.deepcopy(ir)
    with contextlib.redirect_stderr(io.StringIO()):
        # the files a user starts from are written without word wrap (a one-line description is one line in them)
        if kind == "class":
            node = cdd.class_.emit.class_(ir, class_name=NAMES[kind], word_wrap=False)
        elif kind == "function":
            node = cdd.function.emit.function(ir, function_name=NAMES[kind], function_type="static", word_wrap=False)
        else:
            node = cdd.argparse_function.emit.argparse_function(ir, function_name=NAMES[kind], word_wrap=False)
    return to_code(node)


def parse_target(kind, src):
    """-> list of (IR, index in module body) for every top-level definition carrying the target's name"""
    import cdd.argparse_function.parse, cdd.class_.parse, cdd.function.parse
    out = []
    tree = ast.parse(src)
    for i, n in enumerate(tree.body):
        if isinstance(n, (ast.ClassDef, ast.FunctionDef)) and n.name == NAMES[kind]:
            with contextlib.redirect_stderr(io.StringIO()):
                try:
                    ir = {"class": cdd.class_.parse.class_, "function": cdd.function.parse.function,
                          "argparse_function": cdd.argparse_function.parse.argparse_ast}[kind](n)
                except Exception as e:  # noqa
                    ir = {"params": {}, "unparsable": type(e).__name__}
            out.append((ir, i))
    return out, tree


def others_dump(tree, kind):
    return [ast.dump(n) for n in tree.body if not (isinstance(n, (ast.ClassDef, ast.FunctionDef)) and n.name == NAMES[kind])]


_EXPECT = {}


def same_iface(kind, ir, gold, truth_kind):
    """differences between a target's parsed interface and the truth AS THAT FORMAT RENDERS IT (the per-format
    normalisations are C02's subject: the expectation is parse(emit_kind(truth)))"""
    key = (kind, repr(T.jsonable(gold)))
    if key not in _EXPECT:
        try:
            exp, _src = T.hop({"class": "class", "function": "function", "argparse_function": "argparse"}[kind], gold, {})
        except Exception:  # noqa
            exp = gold
        _EXPECT[key] = exp
    its = [i for i in T.compare(_EXPECT[key], ir) if not i[0].startswith("returns")]
    # beyond what the format's own round trip settles: Literal members keep the truth's order, a one-line description stays one line
    for name, p in (gold.get("params") or {}).items():
        q = (ir.get("params") or {}).get(name) or {}
        if not any(c_.startswith("param/typ") and d_.get("param") == name for c_, d_ in its) and \
                T.typ_change(p.get("typ"), q.get("typ")) == "typ:Literal-members-reordered":
            its.append(("param/typ:Literal-members-reordered", {"param": name, "in": p.get("typ"), "out": q.get("typ")}))
        if "default" in p and p["default"] is not None and p["default"] != T.NoneStr and name in (ir.get("params") or {}) and "default" not in q and \
                not any(c_.startswith("param/default") and d_.get("param") == name for c_, d_ in its):
            its.append(("param/default-lost", {"param": name, "typ": p.get("typ"), "in": repr(p["default"]), "out": "<absent>"}))
        if "default" in p and isinstance(p["default"], (int, float, bool, str)) and p["default"] != T.NoneStr and "default" in q and \
                (q["default"] != p["default"] or type(q["default"]) is not type(p["default"])) and \
                not any(c_.startswith("param/default") and d_.get("param") == name for c_, d_ in its):
            its.append(("param/default-changed", {"param": name, "typ": p.get("typ"), "in": repr(p["default"]), "out": repr(q["default"])}))
        if p.get("doc") and "\n" not in p["doc"] and "\n" in (q.get("doc") or "").strip():
            its.append(("param/doc/line-break-inserted", {"param": name, "in": p["doc"], "out": q.get("doc")}))
    return its


def run_case(c):
    import cdd.__main__ as M
    from cdd.shared.ast_utils import find_in_ast, cmp_ast
    from cdd.shared.source_transformer import ast_parse
    d = tempfile.mkdtemp(prefix="verif-c12-")
    res = {"problems": [], "model_in": [], "model_obs": []}
    try:
        files = {k: os.path.join(d, {"class": "classes.py", "function": "methods.py", "argparse_function": "argparse.py"}[k]) for k in KINDS}
        shared = c.get("shared")     # (truth kind, other kind): both targets live in ONE module, listed under both options
        if shared:
            files[shared[1]] = files[shared[0]]
        for k in KINDS:
            st = c["states"][k]
            if shared and k in shared:
                continue
            if st == "missing":
                continue
            if st == "empty":
                open(files[k], "w").write("")
                continue
            if st == "prefix":
                # the truth as its own format reads it, minus the last parameter: what an earlier sync would have left behind
                try:
                    as_read = T.hop({"class": "class", "function": "function", "argparse_function": "argparse"}[c["truth"]], c["gold"], {})[0]
                    as_read["name"] = c["gold"].get("name")
                except Exception:  # noqa
                    as_read = c["gold"]
                src_ir = prefix_of(as_read) or c["irs"][k]
            else:
                src_ir = c["gold"] if (st == "equal" or k == c["truth"]) else c["irs"][k]
            body = emit_src(k, src_ir)
            open(files[k], "w").write(c["before"][k] + ("\n\n" if c["before"][k] else "") + body + "\n" + c["after"][k].replace("{name}", NAMES[k]))
        if shared:
            parts = [c["before"][shared[0]], emit_src(shared[0], c["gold"])]
            if c["states"][shared[1]] == "different":
                parts.append(emit_src(shared[1], c["irs"][shared[1]]))
            open(files[shared[0]], "w").write("\n\n".join(x for x in parts if x) + "\n")
        gold_src_before = open(files[c["truth"]]).read()
        gold_irs, _t = parse_target(c["truth"], gold_src_before)
        if not gold_irs:
            res["problems"].append(("harness/no-truth", {}))
            return res
        gold = gold_irs[0][0]
        argv = ["sync", "--truth", c["truth"]]
        for k in KINDS:
            argv += ["--" + k.replace("_", "-"), files[k], "--" + k.replace("_", "-") + "-name", NAMES[k]]
        # abstract state before (for the decision-table model)
        pre = {}
        for k in KINDS:
            if not os.path.exists(files[k]):
                pre[k] = None
                continue
            src = open(files[k]).read()
            tgts, tree = parse_target(k, src)
            with contextlib.redirect_stderr(io.StringIO()):
                try:
                    found = find_in_ast([NAMES[k]], ast_parse(src, filename=files[k])) is not None
                except Exception:  # noqa
                    found = False
            items = []
            for n in tree.body:
                if isinstance(n, (ast.ClassDef, ast.FunctionDef)) and n.name == NAMES[k]:
                    ir = [t for t in tgts if t[1] == tree.body.index(n)][0][0]
                    items.append(["d", NAMES[k], "gold" if not same_iface(k, ir, gold, c["truth"]) and not ir.get("unparsable") else "old"])
                else:
                    items.append(["o", 0])
            pre[k] = {"items": items, "found": found, "others": others_dump(tree, k), "src": src}
        snaps = []
        for r in range(c["runs"]):
            try:
                with contextlib.redirect_stdout(io.StringIO()), contextlib.redirect_stderr(io.StringIO()):
                    M.main(argv)
            except BaseException as e:  # noqa
                res["raised"] = [r + 1, type(e).__name__ + ": " + str(e)[:80]]
                break
            snaps.append({k: (open(files[k]).read() if os.path.exists(files[k]) else None) for k in KINDS})
        if "raised" in res:
            return res
        first = snaps[0]
        # truth unchanged
        t_after, _ = parse_target(c["truth"], first[c["truth"]])
        if not t_after or same_iface(c["truth"], t_after[0][0], gold, c["truth"]):
            res["problems"].append(("truth-interface-changed/%s" % c["truth"], {}))
        for k in KINDS:
            src = first[k]
            tag = "%s-target/truth-%s/%s%s" % (k, c["truth"], c["states"][k], "/same-module-as-the-truth" if shared and k == shared[1] else "")
            rebound = "{name}" in c["after"][k] and k != "class" and c["states"][k] not in ("missing", "empty")
            if rebound:
                # `train = register(train)` after a function / argparse target carries the same _location as the def: the def is left
                # untouched (known) and the ASSIGNMENT is replaced by the truth.  One class; outside the decision-table model.
                if pre[k] is not None and src is not None and pre[k]["src"] != src:
                    res["problems"].append(("rebinding-assignment-replaced-by-truth/%s-target" % k, {"after": src[-300:]}))
                continue
            if src is None:
                res["problems"].append(("target-file-not-created/" + tag, {}))
                continue
            try:
                tgts, tree = parse_target(k, src)
            except SyntaxError as e:
                res["problems"].append(("target-not-python/" + tag, {"error": str(e)[:80]}))
                continue
            if not tgts:
                res["problems"].append(("target-missing-after-sync/" + tag, {"source": src[:200]}))
            else:
                if len(tgts) > 1:
                    res["problems"].append(("target-duplicated/" + tag, {"count": len(tgts)}))
                diffs = same_iface(k, tgts[-1][0], gold, c["truth"]) if not tgts[-1][0].get("unparsable") else [("unparsable", {})]
                if diffs and pre[k] is not None and pre[k]["src"] == src and c["states"][k] in ("different", "prefix"):
                    # the file was not touched at all although its target differs from the truth
                    res["problems"].append(("target-left-untouched/%s-target" % k, {"first_difference": diffs[0][0]}))
                else:
                    for cls, det in diffs[:3]:
                        res["problems"].append(("target-differs-from-truth/%s/%s" % (tag, cls), det))
            if pre[k] is not None and pre[k]["others"] != others_dump(tree, k) and not (shared and k in shared):
                res["problems"].append(("code-outside-target-changed/" + tag, {}))
            # model observation
            obs = []
            for n in tree.body:
                if isinstance(n, (ast.ClassDef, ast.FunctionDef)) and n.name == NAMES[k]:
                    ir = [t for t in tgts if t[1] == tree.body.index(n)][0][0]
                    obs.append(["d", NAMES[k], "gold" if not ir.get("unparsable") and not same_iface(k, ir, gold, c["truth"]) else "old"])
                else:
                    obs.append(["o", 0])
            if shared and k in shared:
                continue        # the decision-table model is per file with one listed target
            gname = {"class": gold.get("name") or "ConfigClass", "function": NAMES[k], "argparse_function": "set_cli_args"}[k]
            res["model_in"].append([{"class": "class", "function": "function", "argparse_function": "argparse"}[k], NAMES[k], "gold",
                                    bool(pre[k] and pre[k]["found"]), None if pre[k] is None else pre[k]["items"], gname])
            res["model_obs"].append(obs)
        for r in range(1, len(snaps)):
            for k in KINDS:
                if "{name}" in c["after"][k] and k != "class":
                    continue
                if snaps[r][k] != snaps[r - 1][k]:
                    res["problems"].append(("run-%d-changed-file/%s-target/truth-%s/%s%s" % (r + 1, k, c["truth"], c["states"][k],
                                                                                                "/two-kinds-in-one-module" if shared and k in shared else ""),
                                            {"len_before": len(snaps[r - 1][k] or ""), "len_after": len(snaps[r][k] or "")}))
    finally:
        shutil.rmtree(d, ignore_errors=True)
    return res


def gen_case(rng):
    truth = rng.choice(KINDS)
    states = {}
    for k in KINDS:
        states[k] = "different" if k == truth else rng.choice(["different", "different", "equal", "missing", "empty", "prefix"])
    gold = gen_ir(rng)
    if rng.random() < 0.25:
        gold = drop_docs(gold)      # a truth without any prose: the emitted class then has no docstring
    c = {"truth": truth, "states": states, "gold": gold, "irs": {k: gen_ir(rng) for k in KINDS},
         "before": {k: rng.choice(BEFORE) for k in KINDS}, "after": {k: rng.choice(AFTER) for k in KINDS}, "runs": rng.randint(1, 3)}
    if truth != "function" and rng.random() < 0.15:
        # the config class and its argparse function side by side in one module, that module given for both kinds
        other = "class" if truth == "argparse_function" else "argparse_function"
        c["shared"] = [truth, other]
        c["states"][other] = rng.choice(["different", "missing"])
        c["after"][truth] = c["after"][other] = ""
    return c


def enc_obj(x):
    """Python object tree -> the value Model/CmpAst.v reads"""
    if isinstance(x, ast.AST):
        return ["n", type(x).__name__, [enc_obj(getattr(x, f, "<Undefined>")) for f in x._fields]]
    if isinstance(x, list):
        return ["l", [enc_obj(i) for i in x]]
    if isinstance(x, tuple):
        return ["t", [enc_obj(i) for i in x]]
    return ["a", type(x).__name__, repr(x)]


def cmp_pairs(rng, n):
    """pairs of ASTs: equal copies, one list cut to a proper prefix / extended, one constant / name / operator changed"""
    out = []
    for _ in range(n):
        kind = rng.choice(["class", "function", "argparse_function"])
        try:
            src = emit_src(kind, drop_docs(gen_ir(rng)) if rng.random() < 0.5 else gen_ir(rng))
        except Exception:  # noqa
            continue
        a = ast.parse(src).body[0]
        b = copy.deepcopy(a)
        how = rng.choice(["same", "same", "prefix", "extend", "constant", "name", "tuple", "swap"])
        lists = [(n_, f) for n_ in ast.walk(b) for f in n_._fields if isinstance(getattr(n_, f, None), list) and getattr(n_, f)]
        if how == "prefix" and lists:
            n_, f = rng.choice(lists)
            setattr(n_, f, getattr(n_, f)[:-1])
        elif how == "extend" and lists:
            n_, f = rng.choice(lists)
            setattr(n_, f, getattr(n_, f) + [copy.deepcopy(getattr(n_, f)[-1])])
        elif how == "constant":
            cs = [n_ for n_ in ast.walk(b) if isinstance(n_, ast.Constant)]
            if cs:
                c = rng.choice(cs)
                c.value = rng.choice([1, "1", True, None, 1.5, "x"]) if rng.random() < 0.7 else c.value
        elif how == "name":
            ns = [n_ for n_ in ast.walk(b) if isinstance(n_, ast.Name)]
            if ns:
                rng.choice(ns).id = rng.choice(["other", "int", "str"])
        elif how == "tuple" and lists:
            n_, f = rng.choice(lists)
            setattr(n_, f, tuple(getattr(n_, f)))
        elif how == "swap" and lists:
            n_, f = rng.choice(lists)
            v = getattr(n_, f)
            if len(v) > 1:
                setattr(n_, f, [v[-1]] + v[1:-1] + [v[0]])
        out.append((how, a, b))
    return out


def cmp_correspondence(rng, n):
    from cdd.shared.ast_utils import cmp_ast
    pairs = cmp_pairs(rng, n)
    impl = [bool(cmp_ast(a, b)) for _h, a, b in pairs]
    model = call_many("cmp_ast", [[enc_obj(a), enc_obj(b)] for _h, a, b in pairs])
    bad, dist = [], {}
    for (how, a, b), i, m in zip(pairs, impl, model):
        k = "%s:%s" % (how, i)
        dist[k] = dist.get(k, 0) + 1
        if i != m:
            bad.append({"how": how, "impl": i, "model": m, "a": ast.unparse(a)[:300], "b": ast.dump(b)[:300]})
    return len(pairs), bad, dist


def worker(batch):
    out = {"n": 0, "ran": 0, "items": [], "corr": [], "files": 0}
    for c in batch:
        out["n"] += 1
        st, r = guarded(run_case, c, 120)
        if st != "ok":
            out["items"].append(("C12/harness/" + st, {"detail": r}, c))
            continue
        if "raised" in r:
            cause = "function-file-missing" if c["states"]["function"] == "missing" else \
                "+".join("%s=%s" % (k[:3], c["states"][k]) for k in KINDS if k != c["truth"])
            out["items"].append(("C12/raises/%s/%s" % (cause, r["raised"][1].split(":")[0]), {"round": r["raised"][0], "error": r["raised"][1]}, c))
            continue
        out["ran"] += 1
        for cls, det in r["problems"]:
            out["items"].append(("C12/" + cls, det, c))
        if r["model_in"]:
            for q, m, obs in zip(r["model_in"], call_many("sync_conform", r["model_in"]), r["model_obs"]):
                out["files"] += 1
                if isinstance(m, list):
                    m = [it if (it[0] == "d" and it[1] == q[1]) else ["o", 0] for it in m]
                # compare the abstract shape: items with their gold/old label (unrelated items are all "o 0")
                if m != obs:
                    out["corr"].append({"input": q, "impl": obs, "model": m, "truth": c["truth"], "states": c["states"]})
    return out


def collect(ctx, n, _unused=0):
    rng = ctx.rng
    cases = [gen_case(rng) for _ in range(n)]
    # corpus: a truth without any prose and a class target that already holds all but the last parameter
    for truth in KINDS:
        g = drop_docs(gen_ir(rng))
        while len(g["params"]) < 3:
            g = drop_docs(gen_ir(rng))
        st = {k: ("different" if k == truth else "missing") for k in KINDS}
        if truth != "class":
            st["class"] = "prefix"
        cases.append({"truth": truth, "states": st, "gold": g, "irs": {k: gen_ir(rng) for k in KINDS},
                      "before": {k: BEFORE[0] for k in KINDS}, "after": {k: AFTER[1] for k in KINDS}, "runs": 2})
    # corpus: a truth with a description longer than the word wrapper's width and a Literal whose members are not in alphabetical order;
    # the other two targets missing / empty / without the named definition
    for truth in KINDS:
        for st_other in ("missing", "empty", "different"):
            g = {"name": "ConfigClass", "doc": "Thing description.", "returns": None, "params": OrderedDict((
                ("alpha", {"typ": "int", "doc": "the first value", "default": 5}),
                ("rate", {"typ": "float", "default": 0.5,
                          "doc": "the rate at which the value is allowed to change between two consecutive steps, so keep it small enough for the run to stay stable"}),
                ("mode", {"typ": "Literal['slow', 'fast', 'medium']", "doc": "the mode", "default": "slow"}),
                ("seed", {"typ": "Optional[int]", "doc": "the seed", "default": 0}),          # falsy defaults on non-scalar annotations
                ("verbose", {"typ": "Optional[bool]", "doc": "say more", "default": False})))}
            cases.append({"truth": truth, "states": {k: ("different" if k == truth else st_other) for k in KINDS}, "gold": g,
                          "irs": {k: gen_ir(rng) for k in KINDS}, "before": {k: BEFORE[2] for k in KINDS}, "after": {k: "" for k in KINDS}, "runs": 2})
    agg = {"n": 0, "ran": 0, "files": 0}
    items, corr = [], []
    for r in run_cases(worker, [cases[i:i + 4] for i in range(0, len(cases), 4)], chunk=1):
        if "harness_error" in r:
            items.append(("C12/harness/error", {"detail": r}, None))
            continue
        for k in agg:
            agg[k] += r[k]
        items += r["items"]
        corr += r["corr"][:3]
    return agg, items, corr, cases


def run(ctx):
    status = coqbuild.prove("C12", THEOREMS)
    agg, items, corr, cases = collect(ctx, 60 if ctx.quick else 2400)
    n_cmp, cmp_bad, cmp_dist = cmp_correspondence(ctx.rng, 300 if ctx.quick else 6000)
    # the target lookup (find_in_ast [name] after annotate_ancestry) against Model/FindAst.v, on the listed files as generated
    look = []
    for c in cases[: (40 if ctx.quick else 600)]:
        for k in KINDS:
            try:
                src = c["before"][k] + ("\n\n" if c["before"][k] else "") + emit_src(k, c["irs"][k]) + "\n" + c["after"][k].replace("{name}", NAMES[k])
            except Exception:  # noqa
                continue
            ss = [[NAMES[k]]] + fatie.searches(ctx.rng, src, ["helper_before", "helper_after", "q", "k", "z"])
            look += [(src, s_) for s_ in ss[:1] + ctx.rng.sample(ss[1:], min(4, len(ss) - 1))]
    n_look, look_kinds, look_bad = fatie.compare(look)
    corr += look_bad[:3]
    for b in cmp_bad[:3]:
        # a disagreement is itself a concrete input on which cmp_ast misjudges equality
        ctx.item("C12/cmp_ast/" + ("equal-trees-reported-different" if b["model"] else "different-trees-reported-equal") + "/" + b["how"],
                 {"stage": "cdd.shared.ast_utils.cmp_ast on generated AST pairs", "clause": "the change detector answers True exactly for equal trees",
                  "input": b, "detail": b})
    for cls, det, c in items:
        ctx.item(cls, {"stage": "`cdd sync` on generated file triples (cdd.__main__.main)", "clause": cls,
                       "input": {"truth": c["truth"], "states": c["states"], "runs": c["runs"], "gold": T.jsonable(c["gold"])} if c else None,
                       "detail": det})
    if not ctx.violations:
        if corr:
            ctx.violation({"stage": "correspondence: Model/Sync.v decision table vs files after sync", "detail": corr[:2],
                           "n_disagreements": len(corr)}, no_input=True)
        elif not status["ok"]:
            ctx.violation({"stage": "proof", "theorem": status.get("failing_theorem"),
                           "status": {k: status[k] for k in ("theorems", "forbidden", "build_log") if k in status}}, no_input=True)
    cov = {
        "obligations": status["obligations"], "discharged": status["discharged"],
        "checker_cmd": coqbuild.CHECKER_CMD.replace("<id>", "C12"), "theorems": status["theorems"],
        "trusted_base": GLOBAL_TRUSTED_BASE + [
            "Model/Sync.v is the decision table of _conform_filename over an abstract file (find_in_ast is a parameter; cmp_ast equality is "
            "observed); emitters/parsers are those of C02; black re-formatting is ignored (ASTs are compared)"],
        "evaluations": agg["n"], "distinct_nontrivial": agg["ran"],
        "rule": "triples (class file, function file, argparse file): each target different / equal / missing / empty, surrounded by "
                "unrelated definitions before and after, x truth in {class, function, argparse_function} x 1..3 consecutive runs of "
                "cdd sync; non-trivial = all runs completed",
        "completed": agg["ran"], "target_files_compared_with_model": agg["files"], "model_disagreements": len(corr),
        "cmp_ast_pairs_compared_with_model": n_cmp, "cmp_ast_disagreements": len(cmp_bad), "cmp_ast_pair_kinds": cmp_dist,
        "target_lookups_compared_with_model": n_look, "lookup_result_kinds": look_kinds,
        "traces_validated_against_impl": agg["files"] + n_look,
        "samples": [{"truth": cases[0]["truth"], "states": cases[0]["states"], "runs": cases[0]["runs"]}],
        "build": {k: status[k] for k in ("build_s", "forbidden")},
    }
    return ctx.finish("proof", cov, assumptions=["generated files carry no module docstring (ast_parse re-indents it: observed separately)"])


def replay(ctx, payload):
    return run(ctx)
