"""C02 -- class, pydantic, function and argparse emit -> parse round trip."""
import ast
import contextlib
import io

from .. import coqbuild, irtools as T
from ..common import GLOBAL_TRUSTED_BASE
from ..model import call_many
from ..pool import guarded, run_cases

THEOREMS = ["C02_defaults_alignment", "C02_function_roundtrip", "C02_default_stays_on_its_parameter", "C02_class_roundtrip",
            "C02_alignment_example"]
FORMATS = [("class", {}), ("pydantic", {}), ("function", {"type_annotations": True, "kwonly": True}),
           ("function", {"type_annotations": True, "kwonly": False}), ("function", {"type_annotations": False, "kwonly": True}),
           ("function", {"type_annotations": False, "kwonly": False}), ("argparse", {})]
STYLES = ("rest", "google", "numpydoc")


def fmt_tag(fmt, cfg):
    if fmt != "function":
        return fmt
    return "function%s%s" % ("" if cfg.get("type_annotations", True) else "-nota", "" if cfg.get("kwonly", True) else "-pos")


def case_items(ir):
    """All formats x styles x emit_default_doc on one IR -> (items, n_hops, n_clean)."""
    items, hops, clean = [], 0, 0
    for fmt, cfg in FORMATS:
        for style in STYLES:
            for edd in (False, True):
                cf = dict(cfg, docstring_format=style, emit_default_doc=edd)
                tag = "%s/%s" % (fmt_tag(fmt, cfg), style)
                hops += 1
                try:
                    out, src = T.hop(fmt, ir, cf)
                except Exception as e:  # noqa
                    items.append(("C02/%s/raises/%s" % (tag, type(e).__name__), {"config": cf, "error": str(e)[:120]}))
                    continue
                try:
                    again = ast.parse(src)
                    ok = ast.dump(ast.parse(ast.unparse(again))) == ast.dump(again)
                except Exception as e:  # noqa
                    ok = False
                if not ok:
                    items.append(("C02/%s/unparse-reparse" % tag, {"config": cf, "source": src[:300]}))
                its = T.compare(ir, out, norm=fmt if fmt in ("function", "argparse") else None, edd=edd)
                if not its:
                    clean += 1
                for cls, det in its:
                    items.append(("C02/%s/%s" % (tag, cls), dict(det, config=cf)))
    return items, hops, clean


def sig_case(rng):
    names = rng.sample(T.NAMES, rng.randint(0, 6))
    k = rng.randint(0, len(names))
    defaults = [rng.choice(["1", "'x'", "None", "0.5", "True", "-3", "[]"]) for _ in range(k)]
    kw = rng.sample([n for n in ["kw1", "kw2", "kw3"]], rng.randint(0, 3))
    kwd = [rng.choice([None, "2", "'y'"]) for _ in kw]
    first = rng.choice(["", "self", "cls"])
    return {"names": names, "defaults": defaults, "kw": kw, "kwd": kwd, "first": first}


def sig_impl(c):
    import cdd.function.parse
    parts = ([c["first"]] if c["first"] else []) + c["names"][: len(c["names"]) - len(c["defaults"])] + \
        ["%s=%s" % (n, d) for n, d in zip(c["names"][len(c["names"]) - len(c["defaults"]):], c["defaults"])]
    if c["kw"]:
        parts.append("*")
        parts += [n if d is None else "%s=%s" % (n, d) for n, d in zip(c["kw"], c["kwd"])]
    src = "def f(%s):\n    pass\n" % ", ".join(parts)
    with contextlib.redirect_stderr(io.StringIO()):
        ir = cdd.function.parse.function(ast.parse(src).body[0])
    got = [[k, ("default" in v)] for k, v in ir["params"].items()]
    gotv = {k: v.get("default") for k, v in ir["params"].items()}
    return src, got, gotv


def worker(batch):
    out = {"n": 0, "hops": 0, "clean": 0, "items": [], "sig_bad": [], "sigs": 0}
    for kind, payload in batch:
        if kind == "ir":
            st, v = guarded(case_items, payload, 120)
            out["n"] += 1
            if st != "ok":
                out["items"].append(("C02/harness/" + st, {"detail": v}, payload))
                continue
            items, hops, clean = v
            out["hops"] += hops
            out["clean"] += clean
            for cls, det in items:
                out["items"].append((cls, det, payload))
    sigs = [p for k, p in batch if k == "sig"]
    if sigs:
        impl = [guarded(sig_impl, c, 20) for c in sigs]
        m_pos = call_many("parse_pairs", [[c["names"], c["defaults"]] for c in sigs])
        for c, (st, v), mp in zip(sigs, impl, m_pos):
            out["sigs"] += 1
            if st != "ok":
                out["sig_bad"].append({"input": c, "impl": v})
                continue
            src, got, gotv = v
            want = [[n, d is not None] for n, d in mp] + [[n, d is not None] for n, d in zip(c["kw"], c["kwd"])]
            if got != want:
                out["sig_bad"].append({"input": src, "impl": got, "model": want})
                # the property itself, with CPython as the judge: the parser's parameters are the signature's (receiver excluded)
                try:
                    import inspect
                    ns = {}
                    exec(src, ns)
                    py = [[n, p.default is not inspect.Parameter.empty] for n, p in inspect.signature(ns["f"]).parameters.items()]
                    if c["first"]:
                        py = py[1:]
                    if [g[0] for g in got] != [q[0] for q in py]:
                        out["items"].append(("C02/signature/parameter-names-differ-from-python", {"source": src, "parsed": got, "python": py}, None))
                except Exception:  # noqa
                    pass
                continue
            # the default found on each positional parameter is the one the model pairs it with
            for n, d in mp:
                if d is not None:
                    try:
                        if gotv[n] != ast.literal_eval(d) and not (d == "None"):
                            out["sig_bad"].append({"input": src, "param": n, "impl": repr(gotv[n]), "model": d})
                    except Exception:  # noqa
                        pass
    return out


def collect(ctx, n_ir, n_sig):
    rng = ctx.rng
    work = [("ir", T.gen_ir(rng, "sig")) for _ in range(n_ir)] + [("sig", sig_case(rng)) for _ in range(n_sig)]
    batches = [work[i:i + 6] for i in range(0, len(work), 6)]
    agg = {"n": 0, "hops": 0, "clean": 0, "sigs": 0}
    items, sig_bad = [], []
    for r in run_cases(worker, batches, chunk=1):
        if "harness_error" in r:
            items.append(("C02/harness/error", {"detail": r}, None))
            continue
        for k in agg:
            agg[k] += r[k]
        items += r["items"]
        sig_bad += r["sig_bad"]
    return agg, items, sig_bad, work


def run(ctx):
    status = coqbuild.prove("C02", THEOREMS)
    agg, items, sig_bad, work = collect(ctx, 40 if ctx.quick else 1800, 300 if ctx.quick else 15000)
    for cls, det, ir in items:
        ctx.item(cls, {"stage": "emit -> source -> parse on the implementation", "clause": cls.split("/", 3)[-1],
                       "input": T.jsonable(ir) if ir else None, "detail": det})
    if not ctx.violations:
        if sig_bad:
            ctx.violation({"stage": "correspondence: Model/FuncSig.v parse_pairs vs cdd.function.parse.function", "detail": sig_bad[:3]},
                          no_input=True)
        elif not status["ok"]:
            ctx.violation({"stage": "proof", "theorem": status.get("failing_theorem"),
                           "status": {k: status[k] for k in ("theorems", "forbidden", "build_log") if k in status}}, no_input=True)
    cov = {
        "obligations": status["obligations"], "discharged": status["discharged"],
        "checker_cmd": coqbuild.CHECKER_CMD.replace("<id>", "C02"), "theorems": status["theorems"],
        "trusted_base": GLOBAL_TRUSTED_BASE + [
            "the theorems cover the signature mechanism (args/defaults alignment, absent -> None) and the class body shape; type and "
            "docstring handling of the four formats are not modelled: names, order, types, defaults and descriptions are compared on "
            "the implementation per case, differences matched against recorded classes"],
        "evaluations": agg["hops"] + agg["sigs"], "distinct_nontrivial": agg["n"] + agg["sigs"],
        "rule": "IRs with 0..6 parameters (scalar/Optional/Literal/List/Union/dict types, signature-legal defaults incl. negative "
                "numbers and None, optional return entry) x 7 format configurations x 3 docstring styles x emit_default_doc; "
                "signatures with 0..6 positional and 0..3 keyword-only parameters, self/cls, for the alignment model",
        "interfaces": agg["n"], "hops": agg["hops"], "hops_without_any_difference": agg["clean"],
        "signatures_compared_with_model": agg["sigs"], "signature_disagreements": len(sig_bad),
        "traces_validated_against_impl": agg["sigs"],
        "samples": [T.jsonable(work[0][1]), work[-1][1]],
        "build": {k: status[k] for k in ("build_s", "forbidden")},
    }
    return ctx.finish("proof", cov, assumptions=["per-format type/docstring normalisations are observed, not proved"])


def replay(ctx, payload):
    return run(ctx)
