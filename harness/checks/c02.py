"""C02 -- class, pydantic, function and argparse emit -> parse round trip."""
import ast
import contextlib
import copy
import io

from .. import argtie, coqbuild, irtools as T
from ..common import CORPUS_SEED, GLOBAL_TRUSTED_BASE
from ..model import call_many
from ..pool import guarded, run_cases

THEOREMS = ["C02_defaults_alignment", "C02_function_roundtrip", "C02_default_stays_on_its_parameter", "C02_class_roundtrip",
            "C02_alignment_example", "C02_class_text_roundtrip", "C02_class_docstring_canonical", "C02_class_text_example", "C02_function_text_parse_canonical", "C02_function_text_example", "C02_function_text_roundtrip", "C02_argparse_written_default_is_kept", "C02_argparse_choices_in_order", "C02_argparse_optional_iff_not_required", "C02_argparse_int_choices_raise"]
FORMATS = [("class", {}), ("pydantic", {}), ("function", {"type_annotations": True, "kwonly": True}),
           ("function", {"type_annotations": True, "kwonly": False}), ("function", {"type_annotations": False, "kwonly": True}),
           ("function", {"type_annotations": False, "kwonly": False}), ("argparse", {})]
STYLES = ("rest", "google", "numpydoc")


def fmt_tag(fmt, cfg):
    if fmt != "function":
        return fmt
    return "function%s%s" % ("" if cfg.get("type_annotations", True) else "-nota", "" if cfg.get("kwonly", True) else "-pos")


def case_items(ir, cid=None):
    """All formats x styles x emit_default_doc on one IR -> (items, n_hops, n_clean, corpus keys)."""
    items, hops, clean, keys = [], 0, 0, []
    for fmt, cfg in FORMATS:
        for style in STYLES:
            for edd in (False, True):
                cf = dict(cfg, docstring_format=style, emit_default_doc=edd)
                tag = "%s/%s" % (fmt_tag(fmt, cfg), style)
                ckey = None if cid is None else "%s|%s|%d" % (cid, tag, edd)
                if ckey:
                    keys.append(ckey)
                hops += 1
                try:
                    out, src = T.hop(fmt, ir, cf)
                except Exception as e:  # noqa
                    items.append(("C02/%s/raises/%s" % (tag, type(e).__name__), {"config": cf, "error": str(e)[:120], "corpus_key": ckey}))
                    continue
                try:
                    again = ast.parse(src)
                    ok = ast.dump(ast.parse(ast.unparse(again))) == ast.dump(again)
                except Exception as e:  # noqa
                    ok = False
                if not ok:
                    items.append(("C02/%s/unparse-reparse" % tag, {"config": cf, "source": src[:300], "corpus_key": ckey}))
                its = T.compare(ir, out, norm=fmt if fmt in ("function", "argparse") else None, edd=edd)
                if not its:
                    clean += 1
                for cls, det in its:
                    # a parameter whose description carries one of the parser's ad hoc type words ("number of", "whether", "path",
                    # "Optional, ..."): the parser re-types it from the prose after the merge -- one class per format and aspect
                    if cls.startswith("param/") and (ir["params"].get(det.get("param")) or {}).get("doc") in T.TRIGGER_DOCS:
                        aspect = "default" if cls.startswith("param/default") else "doc" if cls.startswith("param/doc") else "typ"
                        cls = "param/prose-with-type-words/%s" % aspect
                    items.append(("C02/%s/%s" % (tag, cls), dict(det, config=cf, corpus_key=ckey)))
    return items, hops, clean, keys


def sig_case(rng):
    names = rng.sample(T.NAMES, rng.randint(0, 6))
    k = rng.randint(0, len(names))
    defaults = [rng.choice(["1", "'x'", "None", "0.5", "True", "-3", "[]"]) for _ in range(k)]
    kw = rng.sample([n for n in ["kw1", "kw2", "kw3"]], rng.randint(0, 3))
    kwd = [rng.choice([None, "2", "'y'"]) for _ in kw]
    first = rng.choice(["", "self", "cls"])
    return {"names": names, "defaults": defaults, "kw": kw, "kwd": kwd, "first": first}


def sig_impl(c):
    import cdd.function.parse
    parts = ([c["first"]] if c["first"] else []) + c["names"][: len(c["names"]) - len(c["defaults"])] + \
        ["%s=%s" % (n, d) for n, d in zip(c["names"][len(c["names"]) - len(c["defaults"]):], c["defaults"])]
    if c["kw"]:
        parts.append("*")
        parts += [n if d is None else "%s=%s" % (n, d) for n, d in zip(c["kw"], c["kwd"])]
    src = "def f(%s):\n    pass\n" % ", ".join(parts)
    with contextlib.redirect_stderr(io.StringIO()):
        ir = cdd.function.parse.function(ast.parse(src).body[0])
    got = [[k, ("default" in v)] for k, v in ir["params"].items()]
    gotv = {k: v.get("default") for k, v in ir["params"].items()}
    return src, got, gotv


# no word of parse_utils.adhoc_type_to_type / adhoc_3_tuple_* ("number", "path", "whether", " of ", " or ", ...): on those the parser
# replaces the annotation by a type guessed from the prose -- that is C02's generator of findings (irtools TRIGGER_DOCS), not this tie
CLS_WORDS = ["name", "the", "dataset", "count", "items", "to", "keep", "location", "file", "learning", "rate", "Convert", "numpy",
             "batch", "size", "x", "K", "model", "zoo", "from", "e.g.", "(optional)", "a-b", "50%", "URL", "if", "set", "default", "value"]
CLS_NAMES = ["dataset_name", "as_numpy", "batch_size", "lr", "data_loader_kwargs", "x", "K", "tfds_dir", "_private", "n2", "type_"]
# type -> scalar defaults of that type (the emitter builds the value node from the type: a mismatched pair is outside the format and
# raises; non-scalar defaults are source text in the IR, cf. irtools.gen_default)
CLS_TYPED = {"str": ["'mnist'", "'a b'", "'a: b'", "'~/x'"], "int": ["5", "-1", "0"], "float": ["0.5", "-2.5"], "bool": ["True", "False"],
             "Optional[str]": ["'mnist'"], "Optional[int]": ["5", "0"], "List[str]": [], "Union[int, str]": ["3", "'a'"],
             "Literal['a', 'b']": ["'a'", "'b'"], "object": [], "Optional[bool]": ["True"]}


def cls_case(rng):
    # a class in the domain of C02_class_text_roundtrip (one-line colon-free texts, distinct names, every attribute typed and documented),
    # and, one time in four, just outside it (an undocumented or untyped attribute, an empty description)
    def text(lo, hi):
        return " ".join(rng.choice(CLS_WORDS) for _ in range(rng.randint(lo, hi)))
    names = rng.sample(CLS_NAMES, rng.randint(1, 5))
    ps = []
    for n in names:
        typ = rng.choice(sorted(CLS_TYPED))
        ps.append([n, [typ, text(1, 7), rng.choice(CLS_TYPED[typ]) if CLS_TYPED[typ] and rng.random() < 0.5 else None]])
    doc = text(1, 9)
    outside = rng.random() < 0.25
    if outside:
        k = rng.randrange(3)
        if k == 0:
            rng.choice(ps)[1][1] = None
        elif k == 1:
            doc = ""
        else:
            rng.choice(ps)[1][1] = "  " + text(1, 3)
    return {"doc": doc, "params": ps, "outside": outside, "fmt": rng.choice(["class", "pydantic"])}


def cls_impl(c):
    import cdd.class_.emit
    import cdd.class_.parse
    from collections import OrderedDict
    params = OrderedDict()
    for n, (typ, doc, dflt) in c["params"]:
        e = {}
        if doc is not None:
            e["doc"] = doc
        if typ is not None:
            e["typ"] = typ
        if dflt is not None:
            e["default"] = ast.literal_eval(dflt)
        params[n] = e
    ir = {"name": "K", "doc": c["doc"], "params": params, "returns": None, "type": "static"}
    with contextlib.redirect_stderr(io.StringIO()):
        # pydantic = the class emitter with BaseModel as base / the class parser with infer_type: the same text format
        import cdd.pydantic.emit
        import cdd.pydantic.parse
        emit_f = cdd.pydantic.emit.pydantic if c.get("fmt") == "pydantic" else cdd.class_.emit.class_
        parse_f = cdd.pydantic.parse.pydantic if c.get("fmt") == "pydantic" else cdd.class_.parse.class_
        node = emit_f(copy.deepcopy(ir), class_name="K", word_wrap=False, emit_default_doc=False)
        src = ast.unparse(ast.fix_missing_locations(node))
        node2 = ast.parse(src).body[0]
        docstring = ast.get_docstring(node2, clean=False)
        body = [[b.target.id, ast.unparse(b.annotation), None if b.value is None else ast.unparse(b.value)]
                for b in node2.body if isinstance(b, ast.AnnAssign)]
        back = parse_f(node2)
    got = [back.get("doc"), [[k, [v.get("typ"), v.get("doc"), ("absent" if "default" not in v else repr(v["default"]))]] for k, v in back["params"].items()]]
    return src, docstring, body, got


PROP_ITEMS = []     # property-level failures found by the text ties (per worker process; drained by worker())


def cls_compare(cases):
    """Model/ClassFmt.v against cdd.class_.emit / cdd.class_.parse: the docstring the emitter writes, and what the parser returns for the
    emitted class (its docstring + annotated assignments).  Defaults are compared as Python values (the model carries the source token)."""
    bad, n = [], 0
    prop = PROP_ITEMS
    impl = [guarded(cls_impl, c, 30) for c in cases]
    ok = [(c, v) for c, (st, v) in zip(cases, impl) if st == "ok"]
    for c, (st, v) in zip(cases, impl):
        if st != "ok" and not c["outside"]:
            bad.append({"input": c, "impl": v})
    m_doc = call_many("class_docstring", [[c["doc"], [[n_, [t, d, None]] for n_, (t, d, _x) in c["params"]]] for c, _ in ok])
    m_parse = call_many("parse_class", [[v[1], v[2]] for _, v in ok])
    m_body = call_many("class_body", [[c["doc"], [[n_, [t, d, df]] for n_, (t, d, df) in c["params"]]] for c, _ in ok])
    val = lambda x: None if x is None else repr(ast.literal_eval(x))
    for (c, (src, docstring, body, got)), md, mp, mb in zip(ok, m_doc, m_parse, m_body):
        n += 1
        if (docstring or "") != md:
            bad.append({"input": c, "what": "class docstring", "impl": docstring, "model": md})
            continue
        # the annotated assignments of the body: one per typed attribute, with its value
        if [[a, t, val(x)] for a, t, x in body] != [[a, t, val(x)] for a, t, x in mb]:
            bad.append({"input": c, "what": "class body (annotated assignments)", "source": src, "impl": body, "model": mb})
        want = [mp[0], [[k, [t, d, ("absent" if df is None else repr(ast.literal_eval(df)))]] for k, (t, d, df) in mp[1]]]
        if [got[0] or "", got[1]] != want:
            bad.append({"input": c, "what": "parse of the emitted class", "source": src, "impl": got, "model": want})
        # the property itself on this domain (theorem C02_class_text_roundtrip): names, order, types, descriptions, defaults come back
        if not c["outside"]:
            orig = [c["doc"], [[n_, [t, d, ("absent" if df is None else repr(ast.literal_eval(df)))]] for n_, (t, d, df) in c["params"]]]
            if [got[0] or "", got[1]] != orig:
                prop.append(("C02/%s-text/roundtrip" % c.get("fmt", "class"), {"source": src, "parsed_back": got, "emitted_from": orig}, c))
    return n, bad


def fn_impl(c, ta):
    import cdd.function.emit
    import cdd.function.parse
    from collections import OrderedDict
    from cdd.shared.ast_utils import NoneStr
    params = OrderedDict()
    for n, (typ, doc, dflt) in c["params"]:
        e = {}
        if doc is not None:
            e["doc"] = doc
        if typ is not None:
            e["typ"] = typ
        if dflt is not None:
            e["default"] = ast.literal_eval(dflt)
        params[n] = e
    ir = {"name": "f", "doc": c["doc"], "params": params, "returns": None, "type": "static"}
    with contextlib.redirect_stderr(io.StringIO()):
        node = cdd.function.emit.function(copy.deepcopy(ir), function_name="f", function_type="static", type_annotations=ta, word_wrap=False,
                                          emit_default_doc=False, emit_as_kwonlyargs=False)
        src = ast.unparse(ast.fix_missing_locations(node))
        fn = ast.parse(src).body[0]
        docstring = ast.get_docstring(fn, clean=False)
        nd = len(fn.args.args) - len(fn.args.defaults)
        sig = [[a.arg, ast.unparse(a.annotation) if a.annotation else None, ast.unparse(fn.args.defaults[i - nd]) if i >= nd else None]
               for i, a in enumerate(fn.args.args)]
        back = cdd.function.parse.function(fn)
    got = [back.get("doc"), [[k, [v.get("typ"), v.get("doc"), ("absent" if "default" not in v else ("NONESTR" if v["default"] == NoneStr else repr(v["default"])))]]
                             for k, v in back["params"].items()]]
    return src, docstring, sig, got


def fn_compare(cases):
    """Model/FuncFmt.v against cdd.function.emit / cdd.function.parse (positional parameters, static): the docstring the emitter writes
    (and, inside the theorem's domain, that it is the canonical text of C02_function_text_parse_canonical), and what the parser returns for
    the emitted function.  Names ending in kwargs become **kwargs in the signature: outside this model."""
    from cdd.shared.ast_utils import NoneStr
    bad, n = [], 0
    cases = [c for c in cases if not any(nm.endswith("kwargs") for nm, _ in c["params"])]
    for ta in (True, False):
        rows = []
        for c in cases:
            st, v = guarded(lambda cc: fn_impl(cc, ta), c, 30)
            if st == "ok":
                rows.append((c, v))
            elif not c["outside"]:
                bad.append({"input": c, "type_annotations": ta, "impl": v})
        args = [[ta, c["doc"], [[n_, [t, d, None]] for n_, (t, d, _x) in c["params"]]] for c, _ in rows]
        md = call_many("function_docstring", args)
        mc = call_many("function_canonical_text", args)
        mp = call_many("parse_function", [[v[1] or "", [[a, ann, d if d is not None else "None"] for a, ann, d in v[2]]] for _, v in rows])
        for (c, (src, docstring, sig, got)), d_, c_, p_ in zip(rows, md, mc, mp):
            n += 1
            if (docstring or "") != d_:
                bad.append({"input": c, "type_annotations": ta, "what": "function docstring", "impl": docstring, "model": d_})
                continue
            if not c["outside"] and d_ != c_:
                bad.append({"input": c, "type_annotations": ta, "what": "the emitted docstring is not the canonical text of the theorem", "emitted": d_, "canonical": c_})
            want = [p_[0], [[k, [t, d, ("absent" if df is None else ("NONESTR" if df == NoneStr else repr(ast.literal_eval(df))))]] for k, (t, d, df) in p_[1]]]
            if [got[0] or "", got[1]] != want:
                bad.append({"input": c, "type_annotations": ta, "what": "parse of the emitted function", "source": src, "impl": got, "model": want})
            if not c["outside"]:
                orig = [c["doc"], [[n_, [t, d, ("NONESTR" if df is None or df == "None" else repr(ast.literal_eval(df)))]] for n_, (t, d, df) in c["params"]]]
                if [got[0] or "", got[1]] != orig:
                    PROP_ITEMS.append(("C02/function-text%s/roundtrip" % ("" if ta else "-nota"), {"source": src, "parsed_back": got, "emitted_from": orig}, c))
    return n, bad


def worker(batch):
    out = {"n": 0, "hops": 0, "clean": 0, "items": [], "sig_bad": [], "sigs": 0, "classes": 0, "cls_bad": [], "corpus_keys": []}
    for kind, payload in batch:
        if kind in ("ir", "corpus"):
            st, v = guarded((lambda p_: case_items(p_[0], p_[1])) if kind == "corpus" else case_items, payload, 120)
            out["n"] += 1
            if st != "ok":
                out["items"].append(("C02/harness/" + st, {"detail": v}, payload))
                continue
            items, hops, clean, keys = v
            out["hops"] += hops
            out["clean"] += clean
            out["corpus_keys"] += keys
            if kind == "corpus":
                payload = payload[0]
            for cls, det in items:
                out["items"].append((cls, det, payload))
    clss = [p for k, p in batch if k == "cls"]
    if clss:
        out["classes"], out["cls_bad"] = cls_compare(clss)
        n_fn, fn_bad = fn_compare(clss)
        out["classes"] += n_fn
        out["cls_bad"] += fn_bad
        out["items"] += PROP_ITEMS[:6]
        del PROP_ITEMS[:]
    sigs = [p for k, p in batch if k == "sig"]
    if sigs:
        impl = [guarded(sig_impl, c, 20) for c in sigs]
        m_pos = call_many("parse_pairs", [[c["names"], c["defaults"]] for c in sigs])
        for c, (st, v), mp in zip(sigs, impl, m_pos):
            out["sigs"] += 1
            if st != "ok":
                out["sig_bad"].append({"input": c, "impl": v})
                continue
            src, got, gotv = v
            want = [[n, d is not None] for n, d in mp] + [[n, d is not None] for n, d in zip(c["kw"], c["kwd"])]
            if got != want:
                out["sig_bad"].append({"input": src, "impl": got, "model": want})
                # the property itself, with CPython as the judge: the parser's parameters are the signature's (receiver excluded)
                try:
                    import inspect
                    ns = {}
                    exec(src, ns)
                    py = [[n, p.default is not inspect.Parameter.empty] for n, p in inspect.signature(ns["f"]).parameters.items()]
                    if c["first"]:
                        py = py[1:]
                    if [g[0] for g in got] != [q[0] for q in py]:
                        out["items"].append(("C02/signature/parameter-names-differ-from-python", {"source": src, "parsed": got, "python": py}, None))
                except Exception:  # noqa
                    pass
                continue
            # the default found on each positional parameter is the one the model pairs it with
            for n, d in mp:
                if d is not None:
                    try:
                        if gotv[n] != ast.literal_eval(d) and not (d == "None"):
                            out["sig_bad"].append({"input": src, "param": n, "impl": repr(gotv[n]), "model": d})
                    except Exception:  # noqa
                        pass
    return out


def collect(ctx, n_ir, n_sig):
    rng = ctx.rng
    import random as _random
    crng = _random.Random(CORPUS_SEED)
    corpus = [("corpus", (T.gen_ir(crng, "sig", docs="plain" if i % 5 else "trigger"), "c%d" % i)) for i in range(200)]
    work = corpus[: (12 if n_ir < 200 else 200)] + [("ir", T.gen_ir(rng, "sig", docs="plain" if i % 5 else "trigger")) for i in range(n_ir)] + [("cls", cls_case(rng)) for _ in range(n_sig)] + \
        [("sig", sig_case(rng)) for _ in range(n_sig)]
    batches = [work[i:i + 6] for i in range(0, len(work), 6)]
    agg = {"n": 0, "hops": 0, "clean": 0, "sigs": 0, "classes": 0}
    items, sig_bad, cls_bad = [], [], []
    for r in run_cases(worker, batches, chunk=1):
        if "harness_error" in r:
            items.append(("C02/harness/error", {"detail": r}, None))
            continue
        for k in ("n", "hops", "clean", "sigs", "classes"):
            agg[k] += r[k]
        agg.setdefault("corpus_keys", []).extend(r.get("corpus_keys", []))
        items += r["items"]
        sig_bad += r["sig_bad"]
        cls_bad += r["cls_bad"]
    return agg, items, sig_bad, work, cls_bad


def run(ctx):
    status = coqbuild.prove("C02", THEOREMS)
    agg, items, sig_bad, work, cls_bad = collect(ctx, 40 if ctx.quick else 1800, 300 if ctx.quick else 15000)
    for cls, det, ir in items:
        ctx.item(cls, {"stage": "emit -> source -> parse on the implementation", "clause": cls.split("/", 3)[-1],
                       "input": T.jsonable(ir) if ir else None, "detail": det}, corpus_key=det.get("corpus_key") if isinstance(det, dict) else None)
    # Model/ArgRead.v (C02_argparse_*) against parse_out_param on generated add_argument calls
    n_arg, arg_bad = argtie.compare([argtie.gen(ctx.rng) for _ in range(400 if ctx.quick else 12000)])
    cls_bad = list(cls_bad) + arg_bad[:3]
    agg["argparse_calls"] = n_arg
    if not ctx.violations:
        if sig_bad:
            ctx.violation({"stage": "correspondence: Model/FuncSig.v parse_pairs vs cdd.function.parse.function", "detail": sig_bad[:3]},
                          no_input=True)
        elif cls_bad:
            ctx.violation({"stage": "correspondence: Model/ClassFmt.v / Model/FuncFmt.v / Model/ArgRead.v vs cdd.class_ / cdd.pydantic / cdd.function emit and parse / the argparse reader",
                           "detail": cls_bad[:3]}, no_input=True)
        elif not status["ok"]:
            ctx.violation({"stage": "proof", "theorem": status.get("failing_theorem"),
                           "status": {k: status[k] for k in ("theorems", "forbidden", "build_log") if k in status}}, no_input=True)
    cov = {
        "obligations": status["obligations"], "discharged": status["discharged"],
        "checker_cmd": coqbuild.CHECKER_CMD.replace("<id>", "C02"), "theorems": status["theorems"],
        "trusted_base": GLOBAL_TRUSTED_BASE + [
            "the theorems cover the signature mechanism (args/defaults alignment, absent -> None) and the class body shape; type and "
            "docstring handling of the four formats are not modelled: names, order, types, defaults and descriptions are compared on "
            "the implementation per case, differences matched against recorded classes"],
        "evaluations": agg["hops"] + agg["sigs"], "distinct_nontrivial": agg["n"] + agg["sigs"],
        "rule": "IRs with 0..6 parameters (scalar/Optional/Literal/List/Union/dict types, signature-legal defaults incl. negative "
                "numbers and None, optional return entry) x 7 format configurations x 3 docstring styles x emit_default_doc; "
                "signatures with 0..6 positional and 0..3 keyword-only parameters, self/cls, for the alignment model",
        "interfaces": agg["n"], "hops": agg["hops"], "hops_without_any_difference": agg["clean"],
        "signatures_compared_with_model": agg["sigs"], "signature_disagreements": len(sig_bad),
        "classes_compared_with_model": agg["classes"], "argparse_calls_compared_with_model": agg["argparse_calls"], "class_disagreements": len(cls_bad),
        "traces_validated_against_impl": agg["sigs"],
        "corpus_configurations_run": len(agg.get("corpus_keys", [])),
        "samples": [T.jsonable(work[-1][1]) if not isinstance(work[-1][1], tuple) else None, work[-1][1] if isinstance(work[-1][1], dict) else None],
        "build": {k: status[k] for k in ("build_s", "forbidden")},
    }
    return ctx.finish("proof", cov, assumptions=["per-format type/docstring normalisations are observed, not proved"])


def replay(ctx, payload):
    return run(ctx)
