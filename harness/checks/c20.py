"""C20 -- exmod --dry-run writes nothing; a real run stays inside the output directory."""
import ast
import os
import shutil
import tempfile

from .. import coqbuild
from ..common import GLOBAL_TRUSTED_BASE
from ..fsobs import run_observed, snap_diff, snapshot, under, write_events
from ..pool import run_cases

THEOREMS = ["C20_checker_sound", "C20_dry_run", "C20_real_run_has_effects", "C20_entry_in_range",
            "C20_gate_table_sound", "C20_gate", "C20_blacklist_wins", "C20_whitelist_excludes", "C20_gate_in_force", "C20_cli_lists_accumulate"]

EMITS = ["class", "function", "argparse", "json_schema", "pydantic", "sqlalchemy", "sqlalchemy_table", "sqlalchemy_hybrid"]
CLS = ["Alpha", "Beta", "Gamma", "Delta", "Omega", "Sigma"]
FNS = ["helper", "compute", "render", "fetch", "apply_it", "resolve"]
MODS = ["alpha", "beta", "gamma", "delta", "kappa", "lambd"]
SUBS = ["sub", "inner", "deep"]
ATTRS = [("x", "int", "5"), ("name", "str", '"n"'), ("flag", "bool", "True"), ("ratio", "float", "0.5"),
         ("count", "int", "-3"), ("title", "str", '"t"'), ("maybe", "Optional[str]", "None"), ("tags", "List[str]", "None")]


def gen_class(rng, name):
    attrs = rng.sample(ATTRS, rng.randint(1, 3))
    doc = "\n    %s class\n\n" % name + "".join("    :cvar %s: the %s\n" % (a[0], a[0]) for a in attrs)
    body = "".join("    %s: %s = %s\n" % a for a in attrs)
    return 'class %s(object):\n    """%s    """\n\n%s\n' % (name, doc, body)


def gen_func(rng, name):
    attrs = rng.sample(ATTRS, rng.randint(1, 3))
    sig = ", ".join("%s=%s" % (a[0], a[2]) for a in attrs)
    doc = "\n    %s function\n\n" % name + "".join(
        "    :param %s: the %s\n    :type %s: ```%s```\n\n" % (a[0], a[0], a[0], a[1]) for a in attrs)
    doc += "    :return: the result\n    :rtype: ```int```\n"
    return 'def %s(%s):\n    """%s    """\n    return 1\n\n' % (name, sig, doc)


def gen_package(rng, root, top, outer, force=False):
    """Writes a package tree; returns (module fqn to expose, list of (fqn, kind, relative file), symbols)."""
    base = os.path.join(root, *( [outer] if outer else []))
    os.makedirs(base, exist_ok=True)
    if outer:
        open(os.path.join(base, "__init__.py"), "w").write('"""outer"""\n')
    prefix = (outer + "." if outer else "") + top
    levels = 2 if force else rng.randint(1, 3)       # force: two levels, the top re-exports THROUGH the sub-package, classes with typing attributes
    cls, fns, mods = list(CLS), list(FNS), list(MODS)
    rng.shuffle(cls), rng.shuffle(fns), rng.shuffle(mods)
    modules = []

    def make(pkg_fqn, pkg_dir, depth):
        os.makedirs(pkg_dir, exist_ok=True)
        exports = []
        for _ in range(rng.randint(1, 2)):
            if not mods:
                break
            m = mods.pop()
            src = '"""%s module"""\n\nfrom typing import List, Optional\n\n' % m
            syms = []
            for _k in range(rng.randint(1, 2)):
                if (force or rng.random() < 0.6) and cls:
                    s = cls.pop()
                    src += gen_class(rng, s) if not force else \
                        'class %s(object):\n    """\n    %s class\n\n    :cvar maybe: the maybe\n    :cvar tags: the tags\n    """\n\n    maybe: Optional[str] = None\n    tags: List[str] = None\n\n' % (s, s)
                elif fns:
                    s = fns.pop()
                    src += gen_func(rng, s)
                else:
                    continue
                syms.append(s)
            if rng.random() < 0.35:
                # a top-level definition the module does not export (unlisted base class / helper)
                src += gen_class(rng, "Unexported%s" % m.title()) if rng.random() < 0.5 else gen_func(rng, "unexported_%s" % m)
            if rng.random() < 0.85:
                src += "__all__ = %r\n" % syms
            open(os.path.join(pkg_dir, m + ".py"), "w").write(src)
            modules.append((pkg_fqn + "." + m, "module", syms))
            exports.append((pkg_fqn + "." + m, syms))
        if depth + 1 < levels:
            sub = SUBS[depth]
            sub_exports = make(pkg_fqn + "." + sub, os.path.join(pkg_dir, sub), depth + 1)
            modules.append((pkg_fqn + "." + sub, "package", [s for _, ss in sub_exports for s in ss]))
            if force or rng.random() < 0.7:
                # re-export either from the sub-package's modules or THROUGH the sub-package (its __init__ is then the source file)
                if not force and rng.random() < 0.5:
                    exports += sub_exports
                else:
                    exports += [(pkg_fqn + "." + sub, [s_ for _m, ss in sub_exports for s_ in ss])]
        init = '"""%s"""\n\n' % pkg_fqn.rsplit(".", 1)[-1]
        names = []
        for mf, syms in exports:
            if syms:
                if not force and rng.random() < 0.2:
                    # the optional-accelerator idiom: try a compiled twin that does not exist, fall back to the Python module
                    init += "try:\n    from %s import %s\nexcept ImportError:\n    from %s import %s\n" % (
                        mf.rsplit(".", 1)[0] + "._native", ", ".join(syms), mf, ", ".join(syms))
                else:
                    init += "from %s import %s\n" % (mf, ", ".join(syms))
                names += syms
        init += "\n__all__ = %r\n" % names
        open(os.path.join(pkg_dir, "__init__.py"), "w").write(init)
        return exports

    make(prefix, os.path.join(base, top), 0)
    return prefix, modules


def check_generated(out_dir):
    """valid Python + __all__ resolvable, for every generated .py; returns list of problems."""
    probs = []
    n = 0
    for base, _d, files in os.walk(out_dir):
        for f in files:
            if not f.endswith(".py"):
                continue
            p = os.path.join(base, f)
            n += 1
            src = open(p).read()
            try:
                tree = ast.parse(src)
            except SyntaxError as e:
                probs.append(("syntax", os.path.relpath(p, out_dir), str(e)))
                continue
            defined = set()
            allv = None
            for node in tree.body:
                if isinstance(node, (ast.FunctionDef, ast.AsyncFunctionDef, ast.ClassDef)):
                    defined.add(node.name)
                elif isinstance(node, (ast.Import, ast.ImportFrom)):
                    for a in node.names:
                        defined.add((a.asname or a.name).split(".")[0])
                elif isinstance(node, (ast.Assign, ast.AnnAssign)):
                    tg = node.targets if isinstance(node, ast.Assign) else [node.target]
                    for t in tg:
                        if isinstance(t, ast.Name):
                            defined.add(t.id)
                            if t.id == "__all__" and node.value is not None:
                                try:
                                    allv = ast.literal_eval(node.value)
                                except Exception:
                                    allv = None
            if allv:
                for name in allv:
                    if name not in defined:
                        probs.append(("__all__ names an undefined symbol", os.path.relpath(p, out_dir), name))
    return probs, n


def case_worker(case):
    rng_seed, opts = case
    import random
    rng = random.Random(rng_seed)
    root = tempfile.mkdtemp(prefix="verif-c20-")
    res = {"opts": opts, "problems": [], "seed": rng_seed}
    try:
        tree = os.path.join(root, "tree")       # observed region: src, out, other, cwd
        work = os.path.join(root, "work")       # wrapper + audit log (not observed)
        src = os.path.join(tree, "src")
        other = os.path.join(tree, "other")
        cwd = os.path.join(tree, "cwd")
        out = os.path.join(tree, "out")
        for d in (src, other, cwd, work):
            os.makedirs(d)
        open(os.path.join(other, "keep.txt"), "w").write("keep\n")
        module, modules = gen_package(rng, src, opts["top"], opts["outer"], force=bool(opts.get("through_sub")))
        res["module"] = module
        res["modules"] = [m[0] for m in modules]
        if opts["out_exists"]:
            os.makedirs(out)
            open(os.path.join(out, "existing.txt"), "w").write("pre-existing\n")
        argv = ["cdd", "exmod", "--module", module, "--output-directory", out]
        for e in opts["emit"]:
            argv += ["--emit", e]
        if opts["recursive"]:
            argv.append("--recursive")
        if opts["dry_run"]:
            argv.append("--dry-run")
        if opts["sqla_sub"]:
            argv.append("--emit-sqlalchemy-submodule")
        bl = []
        if opts["blacklist"] == "root":
            bl = [module]
        elif opts["blacklist"] == "subpkg":
            subs = [m[0] for m in modules if m[1] == "package"]
            bl = subs[:1]
        if bl and opts.get("pad_lists"):
            bl = bl + ["no.such.legacy"]        # the option given more than once: every occurrence counts, not only the last one
        for b in bl:
            argv += ["--blacklist", b]
        wl = []
        if opts["whitelist"] == "root":
            wl = [module]
        elif opts["whitelist"] == "other":
            wl = ["no.such.module"]
        if wl and opts.get("pad_lists") and opts["whitelist"] == "other":
            wl = wl + ["no.such.other"]
        for w_ in wl:
            argv += ["--whitelist", w_]
        res["argv"] = argv[1:]
        if opts.get("prior_real_run") and opts["dry_run"]:
            # history: a real run into the same output directory first, then the dry run that is observed
            run_observed(work, [a for a in argv if a != "--dry-run"], extra_path=[src], cwd=cwd, timeout=240)
            res["history"] = ["real run: " + " ".join(a for a in argv[1:] if a != "--dry-run"), "dry run (observed)"]
        before = snapshot(tree)
        r = run_observed(work, argv, extra_path=[src], cwd=cwd, timeout=240)
        after = snapshot(tree)
        res["rc"] = r["rc"]
        res["err_tail"] = r["err"].strip().splitlines()[-1:] if r["rc"] else []
        diff = snap_diff(before, after)
        wev = write_events(r["events"], ignore_under=[work])
        res["n_write_events"] = len(wev)
        res["n_created"] = len(diff["created"])
        procs = [e for e in r["events"] if e["ev"].startswith(("subprocess", "os.system", "os.exec", "os.posix", "os.fork",
                                                                 "os.spawn", "socket", "urllib", "http", "pty"))]
        if procs:
            res["problems"].append({"clause": "a process was spawned / network touched", "events": procs[:3]})
        # the source package is DATA for exmod: importing it would run its code (and, with bytecode caching on, write __pycache__ into it)
        first = (opts["outer"] or opts["top"])
        src_imports = sorted({e["module"] for e in r["events"] if e["ev"] == "import" and (e.get("module") == first or str(e.get("module", "")).startswith(first + "."))})
        if src_imports:
            res["problems"].append({"clause": "the analysed source package was imported (its code ran)", "modules": src_imports[:5], "cls": "C20/source-package-imported"})
        if opts["dry_run"]:
            if diff["created"] or diff["deleted"] or diff["modified"]:
                res["problems"].append({"clause": "--dry-run created, modified or deleted a file or directory",
                                        "diff": {k: v[:8] for k, v in diff.items()}})
            if wev:
                res["problems"].append({"clause": "--dry-run performed a file-system write operation",
                                        "events": wev[:8]})
        else:
            outside = [k for k in diff["created"] + diff["deleted"] + diff["modified"]
                       if not (k == "out" or k.startswith("out" + os.sep))]
            # creating `out` itself modifies the mtime of its parent directory (`.`): that is inside the contract
            outside = [k for k in outside if not (k == "." and not opts["out_exists"])]
            if outside:
                res["problems"].append({"clause": "a real run changed something outside the output directory "
                                                  "(source package / sibling / cwd)", "paths": outside[:8]})
            ev_out = [e for e in wev if not under(e[1], out)]
            if ev_out:
                res["problems"].append({"clause": "a write operation targeted a path outside the output directory",
                                        "events": ev_out[:8]})
            if opts["out_exists"] and before.get(os.path.join("out", "existing.txt")) != after.get(os.path.join("out", "existing.txt")):
                res["problems"].append({"clause": "a pre-existing unrelated file in the output directory was changed"})
            if r["rc"] == 0:
                probs, nfiles = check_generated(out)
                res["n_generated_py"] = nfiles
                for pr in probs[:5]:
                    res["problems"].append({"clause": "generated file is not valid Python / __all__ not resolvable",
                                            "detail": pr, "cls": "C20/generated/" + pr[0].split()[0]})
                # the support package requested by --emit-sqlalchemy-submodule is not the output of a source module
                created_out = [k for k in diff["created"] if k.startswith("out" + os.sep)
                               and not (k + os.sep).startswith(os.path.join("out", "sqlalchemy_mod") + os.sep)]
                if wl and opts["whitelist"] == "other" and created_out:
                    res["problems"].append({"clause": "module not in the whitelist produced output",
                                            "paths": created_out[:6]})
                if opts["blacklist"] == "root" and bl:  # the blacklist wins over a whitelist naming the same module
                    # the root folder is gated: none of the root package's own modules may appear
                    roots = [m for m in modules if m[1] == "module" and m[0].count(".") == module.count(".") + 1]
                    hit = [k for k in created_out for m in roots
                           if os.path.basename(k) in (m[0].rsplit(".", 1)[1] + ".py",)
                           and os.path.dirname(k) == "out"]
                    if hit:
                        res["problems"].append({"clause": "blacklisted root module produced output", "paths": hit[:6],
                                                "cls": "C20/blacklist/root" + ("" if "." in module else "-undotted")})
                if opts["blacklist"] == "subpkg" and bl and opts["recursive"]:
                    subname = bl[0].rsplit(".", 1)[1]
                    hit = [k for k in created_out if k.startswith(os.path.join("out", subname) + os.sep)]
                    if hit:
                        res["problems"].append({"clause": "blacklisted sub-package (by its fully-qualified name) produced output",
                                                "paths": hit[:6], "cls": "C20/blacklist/subpackage-fqn"})
    finally:
        shutil.rmtree(root, ignore_errors=True)
    return res


def gen_cases(ctx):
    rng = ctx.rng
    n = 48 if ctx.quick else 1000
    cases = []
    for i in range(n):
        k = rng.random()
        emit = [rng.choice(EMITS)] if k < 0.8 else rng.sample(EMITS, 2)
        opts = {
            "emit": emit,
            "recursive": rng.random() < 0.5,
            "dry_run": rng.random() < 0.5,
            "out_exists": rng.random() < 0.5,
            "sqla_sub": rng.random() < 0.5 if any(e.startswith("sqlalchemy") for e in emit) else rng.random() < 0.1,
            "blacklist": rng.choice([None, None, None, "root", "subpkg"]),
            "whitelist": rng.choice([None, None, None, None, "root", "other"]), "pad_lists": rng.random() < 0.5,
            "top": rng.choice(["pkga", "zoo", "mylib"]),
            "outer": rng.choice([None, "outerp"]),
            "prior_real_run": rng.random() < 0.3,
        }
        cases.append((rng.randrange(1 << 30), opts))
    # fixed corner cases always present: dry-run x every sqlalchemy kind x submodule, out missing / present
    for e in ("sqlalchemy", "sqlalchemy_table", "sqlalchemy_hybrid", "class"):
        for ex in (False, True):
            cases.append((7 + len(cases), {"emit": [e], "recursive": True, "dry_run": True, "out_exists": ex,
                                           "sqla_sub": True, "blacklist": None, "whitelist": None, "top": "pkga",
                                           "outer": None}))
    for e in ("sqlalchemy_table", "sqlalchemy_hybrid", "class"):
        cases.append((9 + len(cases), {"emit": [e], "recursive": True, "dry_run": True, "out_exists": True, "sqla_sub": True, "blacklist": None,
                                       "whitelist": None, "top": "pkga", "outer": None, "prior_real_run": True}))
    # the gate with both lists: a module named by the blacklist AND the whitelist is excluded
    for top, outer in (("pkga", "outerp"), ("mylib", "outerp")):
        for rec in (False, True):
            cases.append((11 + len(cases), {"emit": ["class"], "recursive": rec, "dry_run": False, "out_exists": False, "sqla_sub": False,
                                            "blacklist": "root", "whitelist": "root", "top": top, "outer": outer}))
    # a two-level package whose top __init__ re-exports THROUGH its sub-package (that file is merged into twice), typing attributes
    for e in ("class", "sqlalchemy", "argparse"):
        for outer in ("outerp", None):
            cases.append((17 + len(cases), {"emit": [e], "recursive": True, "dry_run": False, "out_exists": False, "sqla_sub": False,
                                            "blacklist": None, "whitelist": None, "top": "pkga", "outer": outer, "through_sub": True}))
    # --blacklist given twice, the module to omit named by the FIRST occurrence
    for top, outer, bl in (("pkga", "outerp", "root"), ("pkga", None, "root"), ("pkga", "outerp", "subpkg")):
        cases.append((13 + len(cases), {"emit": ["class"], "recursive": True, "dry_run": False, "out_exists": False, "sqla_sub": False,
                                        "blacklist": bl, "whitelist": None, "top": top, "outer": outer, "pad_lists": True}))
    return cases


def run(ctx):
    status = coqbuild.prove("C20", THEOREMS)
    meta = status["gen"].get("effects", {})
    cases = gen_cases(ctx)
    results = list(run_cases(case_worker, cases, chunk=1))
    harness_errors = [r for r in results if "harness_error" in r]
    ok_runs = [r for r in results if r.get("rc") == 0]
    nviol = 0
    for r in results:
        for pr in r.get("problems", []):
            cls = pr.get("cls") or "C20/" + pr["clause"][:40]
            if ctx.item(cls, {"stage": "file-system observation of `python -m cdd exmod`", "clause": pr["clause"],
                              "input": {"argv": r.get("argv"), "package_seed": r.get("seed"), "opts": r.get("opts")},
                              "detail": pr}):
                nviol += 1
    for h in harness_errors[:3]:
        ctx.violation({"stage": "harness error", "detail": h}, no_input=True)
    if not status["ok"] and nviol == 0:
        # search: the witness path of the python port of the checker, then a targeted dry run was already done above
        path = None
        try:
            from translate import effects
            w, order, blocks = effects.build()
            q = effects.ENTRIES["exmod"]
            if q in w.fns:
                path = effects.find_path(order, blocks, w.fns[q].idx, True, {"KFs", "KUnsupported"})
                if path and path[-1][0] == "EFF":
                    path.append(w.sites[path[-1][2]])
        except Exception as e:  # noqa
            path = ["search failed: %r" % (e,)]
        ctx.violation({"stage": "proof", "theorem": status.get("failing_theorem") or "C20_dry_run",
                       "unguarded_path_in_skeleton": path,
                       "note": "the effect-skeleton regenerated from the source no longer passes the dry-run checker, but no "
                               "generated package/option combination showed a file-system change under --dry-run",
                       "status": {k: status[k] for k in ("theorems", "forbidden", "build_log") if k in status}},
                      no_input=True)
    dist = {}
    for r in results:
        o = r.get("opts") or {}
        key = "%s|%s|%s" % ("dry" if o.get("dry_run") else "real", "rec" if o.get("recursive") else "flat",
                            "+".join(o.get("emit", [])))
        dist[key] = dist.get(key, 0) + 1
    cov = {
        "obligations": status["obligations"], "discharged": status["discharged"],
        "checker_cmd": coqbuild.CHECKER_CMD.replace("<id>", "C20"),
        "theorems": status["theorems"],
        "trusted_base": GLOBAL_TRUSTED_BASE + [
            "translate/effects.py (function bodies of the non-test package -> Gen/EffectSkeleton.v: effect sites, dry_run "
            "guards, how dry_run is passed at each call); calls through variables and third-party internals are not in the "
            "skeleton -- validated on every run by observing real exmod runs (audit hook + snapshots)",
            "Model/EffectSem.v as the meaning of the skeleton (nondeterministic trace semantics)"],
        "skeleton": {k: meta.get(k) for k in ("functions", "sites", "stmts", "missing_entries")},
        "skeleton_unsupported": meta.get("unsupported"),
        "evaluations": len(results), "exit0_runs": len(ok_runs),
        "distinct_nontrivial": len({(r.get("seed"), str(r.get("argv"))) for r in results
                                    if r.get("n_write_events", 0) > 0 or (r.get("opts") or {}).get("dry_run")}),
        "rule": "one generated package tree x option combination per case, run as `python -m cdd exmod` in a scratch tree "
                "under an audit hook with before/after snapshots; non-trivial = a dry run, or a real run that performed at "
                "least one write operation",
        "traces_validated_against_impl": len(results),
        "input_distribution": dist,
        "nonzero_exit": len(results) - len(ok_runs),
        "samples": [{"argv": r.get("argv"), "rc": r.get("rc"), "created": r.get("n_created")} for r in results[:3]],
        "build": {k: status[k] for k in ("build_s", "forbidden")},
    }
    return ctx.finish("proof", cov, assumptions=[
        "clause 'everything created lies under the output directory' is validated by observation only (no theorem)",
        "dynamic dispatch (emitters obtained with getattr/import_module) is outside the skeleton"])


def replay(ctx, payload):
    inp = payload.get("input") or {}
    if "opts" in inp and inp.get("package_seed") is not None:
        r = case_worker((inp["package_seed"], inp["opts"]))
        print({k: r.get(k) for k in ("argv", "rc", "problems")})
        return 1 if r.get("problems") else 0
    return run(ctx)
