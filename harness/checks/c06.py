"""C06 -- emitted JSON-schema is valid, self-consistent and round-trips."""
import copy
import json
import os
import re
import shutil
import subprocess
import tempfile
from collections import OrderedDict

from .. import coqbuild
from ..common import GLOBAL_TRUSTED_BASE
from ..model import call_many
from ..pool import guarded, run_cases

THEOREMS = ["C06_required_iff", "C06_roundtrip", "C06_sorted_same_members", "C06_default_validates",
            "C06_pattern_accepts_members", "C06_pattern_exact_refuted", "C06_example"]
NoneStr = "```(None)```"
BASES = ["int", "float", "str", "bool", "dict", "list"]
MEMBERS = ["np", "tf", "sgd", "adam", "vgg16", "top_k", "a-b", "v1.0", "two words", "x", "Z9"]
NAMES = ["alpha", "beta", "gamma", "delta", "eps", "zeta", "eta", "theta", "iota", "launch_kwargs", "log_kwargs"]
DOCS = [None, "the value", "how many items", "backend engine", "path to file", "port to bind. Defaults to 8080",
        "interface to bind. Defaults to 0.0.0.0. Use it for all."]

VALIDATOR = r'''
import json, sys, jsonschema
job = json.load(open(sys.argv[1]))
out = []
for case in job:
    res = {"valid": True, "errors": []}
    schema = case["schema"]
    try:
        jsonschema.Draft202012Validator.check_schema(schema)
    except Exception as e:
        res["valid"] = False; res["errors"].append(("invalid-schema", str(e)[:150]))
    for name, prop in (schema.get("properties") or {}).items():
        if "default" in prop:
            try:
                jsonschema.Draft202012Validator(prop).validate(prop["default"])
            except Exception as e:
                res["errors"].append(("default-does-not-validate", "%s: %s" % (name, str(e)[:100])))
    for name, members, nonmember in case.get("literals", []):
        prop = schema["properties"][name]
        v = jsonschema.Draft202012Validator(prop)
        for m in members:
            if not v.is_valid(m):
                res["errors"].append(("pattern-rejects-member", "%s: %r" % (name, m)))
        if v.is_valid(nonmember):
            res["errors"].append(("pattern-accepts-non-member", "%s: %r" % (name, nonmember)))
    out.append(res)
print("@@" + json.dumps(out))
'''


def gen_typ(rng):
    k = rng.random()
    if k < 0.55:
        t = ("b", rng.choice(BASES))
    else:
        t = ("l", rng.sample(MEMBERS, 1 if rng.random() < 0.04 else rng.randint(2, 4)))
    if rng.random() < 0.45:
        t = ("o", t)
    return t


def render_typ(t):
    if t[0] == "b":
        return t[1]
    if t[0] == "l":
        return "Literal[%s]" % ", ".join("'%s'" % m for m in t[1])
    return "Optional[%s]" % render_typ(t[1])


def gen_default(rng, t):
    inner = t[1] if t[0] == "o" else t
    if rng.random() < 0.45:
        return None
    if t[0] == "o" and rng.random() < 0.4:
        return ("n", None)
    if inner[0] == "l":
        return ("s", rng.choice(inner[1]))
    b = inner[1]
    if b == "int":
        return ("i", rng.choice([0, 5, -3, 42]))
    if b == "float":
        return ("f", rng.choice(["0.5", "-1.5", "0.0", "2.25"]))
    if b == "str":
        return ("s", rng.choice(["x", "hello world", "a.b", ""]))
    if b == "bool":
        return ("b", rng.choice([True, False]))
    return None


def py_default(d):
    if d is None:
        return None
    k, v = d
    return {"i": v, "f": float(v) if k == "f" else None, "s": v, "b": v, "n": NoneStr}[k]


def gen_case(rng):
    n = rng.randint(0, 8)
    names = rng.sample(NAMES, n)
    params = []
    for nm in names:
        t = gen_typ(rng)
        params.append({"name": nm, "typ": t, "doc": rng.choice(DOCS), "default": gen_default(rng, t)})
    return {"params": params, "doc": rng.choice(["", "Prose description of the thing.", "Two lines\nof prose."]),
            "with_return": rng.random() < 0.3, "return_shape": rng.choice(["typ+doc", "typ+doc", "typ", "doc"]),
            "return_doc": rng.choice(["the result", "the result", "exit status: 0 on success", "the pair (count, label); count first"])}


def to_ir(case):
    ir = {"name": "Thing", "doc": case["doc"], "params": OrderedDict(), "returns": None}
    for p in case["params"]:
        e = {"typ": render_typ(p["typ"])}
        if p["doc"] is not None:
            e["doc"] = p["doc"]
        if p["default"] is not None:
            e["default"] = py_default(p["default"])
        ir["params"][p["name"]] = e
    if case["with_return"]:
        shape = case.get("return_shape", "typ+doc")
        ir["returns"] = OrderedDict((("return_type", {k: v for k, v in (("typ", "int"), ("doc", case.get("return_doc", "the result"))) if k in shape}),))
    return ir


def enc_typ(t):
    return ["b", t[1]] if t[0] == "b" else ["l", list(t[1])] if t[0] == "l" else ["o", enc_typ(t[1])]


def enc_default(d):
    if d is None:
        return None
    k, v = d
    return [k, v]


def model_default_to_py(v):
    if v is None:
        return ("absent",)
    k, x = v
    if k == "f":
        return ("val", float(x))
    if k == "n":
        return ("val", NoneStr)
    return ("val", x)


def worker(batch):
    import contextlib
    import io
    import cdd.json_schema.emit
    import cdd.json_schema.parse

    out = {"n": len(batch), "items": [], "corr": [], "for_validator": [], "params": 0, "literals": 0}
    impl = []
    kept = []           # (case, the interface object a parse returned, a snapshot of it): later calls must not change what was returned
    view = lambda ir_: json.dumps({"doc": ir_.get("doc"), "name": ir_.get("name"), "params": [[k, dict(v)] for k, v in (ir_.get("params") or {}).items()],
                                   "returns": [[k, dict(v)] for k, v in (ir_.get("returns") or {}).items()]}, default=repr, sort_keys=True)
    for c in batch:
        def f(case):
            with contextlib.redirect_stderr(io.StringIO()):
                s = cdd.json_schema.emit.json_schema(copy.deepcopy(to_ir(case)))
                s2 = json.loads(json.dumps(s))
                back = cdd.json_schema.parse.json_schema(copy.deepcopy(s2))
                kept.append((case, back, view(back)))
                if len(kept) % 3 == 0:
                    # ... nor a re-emission of an interface that was parsed earlier
                    cdd.json_schema.emit.json_schema(copy.deepcopy(kept[-2][1]))
                    cdd.json_schema.emit.json_schema(kept[-3][1] if False else copy.deepcopy(kept[-3][1]))
            r_ = (back.get("returns") or {}).get("return_type")
            return s2, {k: dict(v) for k, v in back["params"].items()}, back.get("doc"), (None if r_ is None else {k: r_.get(k) for k in ("typ", "doc") if r_.get(k) is not None})
        impl.append(guarded(f, c, 20))
    for case_, obj_, snap_ in kept:
        if view(obj_) != snap_:
            out["items"].append({"cls": "C06/history/an-interface-returned-earlier-was-changed-by-a-later-call", "case": case_,
                                 "detail": "returned %s ; after the rest of the batch it reads %s" % (snap_[:300], view(obj_)[:300])})
            break
    # json_schema_file: what is WRITTEN for one / several descriptions is what json_schema returns for each of them
    import os
    import tempfile
    i = 0
    sizes = [1, 2, 3, 2]
    while i < len(batch):
        group = batch[i:i + sizes[(i + len(batch[0]["params"])) % 4]]
        i += len(group)

        def g(cases):
            d = tempfile.mkdtemp(prefix="verif-c06f-")
            try:
                fn = os.path.join(d, "out.json")
                with contextlib.redirect_stderr(io.StringIO()):
                    want = [json.loads(json.dumps(cdd.json_schema.emit.json_schema(copy.deepcopy(to_ir(c))))) for c in cases]
                    mapping = OrderedDict()
                    for k, c in enumerate(cases):
                        ir = copy.deepcopy(to_ir(c))
                        ir["name"] = "Thing%d" % k
                        mapping["Thing%d" % k] = ir
                    for k, w in enumerate(want):
                        w["$id"] = w["$id"].replace("Thing", "Thing%d" % k) if isinstance(w.get("$id"), str) else w.get("$id")
                    cdd.json_schema.emit.json_schema_file(mapping, fn)
                got = json.load(open(fn))
                got = got["schemas"] if len(cases) > 1 else [got]
                return want, got
            finally:
                import shutil
                shutil.rmtree(d, ignore_errors=True)
        st, v = guarded(g, group, 20)
        if st != "ok":
            if not any(guarded(lambda c_: cdd.json_schema.emit.json_schema(copy.deepcopy(to_ir(c_))), c, 10)[0] != "ok" for c in group):
                out["items"].append({"cls": "C06/file/raises", "case": group[0], "detail": str(v)[:200]})
            continue
        want, got = v
        if len(want) != len(got):
            out["items"].append({"cls": "C06/file/schema-count", "case": group[0],
                                 "detail": "%d description(s) given, %d schema(s) written" % (len(want), len(got))})
            continue
        for c, w, g_ in zip(group, want, got):
            if w != g_:
                keys = sorted(k for k in set(w) | set(g_) if w.get(k) != g_.get(k))
                out["items"].append({"cls": "C06/file/written-schema-differs/" + "+".join(keys), "case": c,
                                     "detail": "of %d description(s) written to one file: returned %r, written %r" % (len(group), {k: w.get(k) for k in keys}, {k: g_.get(k) for k in keys})})
    models = call_many("js_emit", [[[p["name"], [enc_typ(p["typ"]), p["doc"], enc_default(p["default"])]] for p in c["params"]]
                                   for c in batch])
    for c, (st, v), m in zip(batch, impl, models):
        if st != "ok":
            single = any((p["typ"][1] if p["typ"][0] == "o" else p["typ"])[0] == "l" and
                         len((p["typ"][1] if p["typ"][0] == "o" else p["typ"])[1]) == 1 for p in c["params"])
            cls = "C06/raises/single-member-literal" if single and "elts" in str(v) else "C06/raises/" + str(v).split(":")[0][:30]
            out["items"].append({"cls": cls, "case": c, "detail": v})
            continue
        schema, back, back_doc, back_ret = v
        # the interface's own description and its return entry come back too
        want_ret = (to_ir(c).get("returns") or {}).get("return_type")
        want_ret = None if want_ret is None else {k: want_ret[k] for k in ("typ", "doc") if want_ret.get(k) is not None}
        if (back_doc or "") != (c["doc"] or ""):
            out["items"].append({"cls": "C06/roundtrip/interface-description" + ("/with-return" if want_ret else ""), "case": c,
                                 "detail": "description %r came back as %r" % (c["doc"], back_doc)})
        if back_ret != want_ret:
            kind = "lost" if back_ret is None else "invented" if want_ret is None else "changed"
            shape = "" if want_ret is None else "/" + "+".join(sorted(want_ret))
            out["items"].append({"cls": "C06/roundtrip/returns-%s%s" % (kind, shape), "case": c,
                                 "detail": "return entry %r came back as %r" % (want_ret, back_ret)})
        out["params"] += len(c["params"])
        props_m, req_m, parsed_m, rendered = m
        # --- correspondence: properties, required, parsed params
        props_i = schema.get("properties") or {}
        for (name, pm), p in zip(props_m, c["params"]):
            pi = props_i.get(name)
            exp = {"type": pm[0]}
            if pm[1] is not None:
                exp["description"] = pm[1]
            if pm[2] is not None:
                exp["pattern"] = pm[2]
            d = model_default_to_py(pm[3])
            if d[0] == "val":
                exp["default"] = d[1]
            if pi != exp:
                out["corr"].append({"stage": "param2json_schema_property", "input": p, "impl": pi, "model": exp})
        if list(schema.get("required") or []) != list(req_m):
            out["corr"].append({"stage": "required list", "input": c["params"], "impl": schema.get("required"), "model": req_m})
        for pm, p in zip(parsed_m, c["params"]):
            if pm is None:
                continue
            name, typ, doc, dflt = pm
            bi = back.get(name) or {}
            exp = {}
            if typ is not None:
                exp["typ"] = typ
            if doc is not None:
                exp["doc"] = doc
            d = model_default_to_py(dflt)
            if d[0] == "val":
                exp["default"] = d[1]
            if bi != exp:
                out["corr"].append({"stage": "json_schema_property_to_param", "input": p, "impl": bi, "model": exp})
        # --- the property itself on the implementation
        lits = []
        for p in c["params"]:
            name = p["name"]
            opt = p["typ"][0] == "o"
            if (name in (schema.get("required") or [])) == opt:
                out["items"].append({"cls": "C06/required-vs-optional", "case": c,
                                     "detail": "%s: typ %s, required list %s" % (name, render_typ(p["typ"]), schema.get("required"))})
            inner = p["typ"][1] if opt else p["typ"]
            if inner[0] == "l":
                out["literals"] += 1
                lits.append([name, list(inner[1]), inner[1][0] + "x"])
            # round trip (Literal members as a set)
            bi = back.get(name) or {}
            want_typ = render_typ(p["typ"])
            got_typ = bi.get("typ")

            def canon(t):
                m_ = re.match(r"^(Optional\[)?Literal\[(.*?)\](\])?$", t or "")
                if m_:
                    return (bool(m_.group(1)), frozenset(x.strip() for x in m_.group(2).split(",")))
                return t
            if canon(got_typ) != canon(want_typ):
                out["items"].append({"cls": "C06/roundtrip/type", "case": c, "detail": "%s: %r came back as %r" % (name, want_typ, got_typ)})
            if (p["doc"] or None) != bi.get("doc"):
                out["items"].append({"cls": "C06/roundtrip/doc", "case": c, "detail": "%s: %r came back as %r" % (name, p["doc"], bi.get("doc"))})
            want_d = py_default(p["default"]) if p["default"] is not None else None
            if p["default"] is not None and p["default"][0] == "n":
                want_d = None          # a None default is carried by Optional, not by a key
            if want_d in ("None",):
                want_d = None
            got_d = bi.get("default")
            if want_d != got_d or type(want_d) != type(got_d):
                out["items"].append({"cls": "C06/roundtrip/default" + ("/empty-string" if want_d == "" else ""), "case": c,
                                     "detail": "%s: default %r came back as %r" % (name, want_d, got_d)})
        out["for_validator"].append({"schema": schema, "literals": lits, "case": c})
    return out


def run_validator(cases):
    d = tempfile.mkdtemp(prefix="verif-c06-")
    try:
        jf = os.path.join(d, "job.json")
        json.dump([{"schema": c["schema"], "literals": c["literals"]} for c in cases], open(jf, "w"))
        vf = os.path.join(d, "validator.py")
        open(vf, "w").write(VALIDATOR)
        p = subprocess.run(["python3-vt", vf, jf], stdout=subprocess.PIPE, stderr=subprocess.PIPE, text=True, timeout=900)
        for line in p.stdout.splitlines():
            if line.startswith("@@"):
                return json.loads(line[2:]), None
        return None, p.stderr[-500:]
    finally:
        shutil.rmtree(d, ignore_errors=True)


def run(ctx):
    status = coqbuild.prove("C06", THEOREMS)
    rng = ctx.rng
    n = 600 if ctx.quick else 24000
    cases = [gen_case(rng) for _ in range(n)]
    batches = [cases[i:i + 50] for i in range(0, len(cases), 50)]
    agg = {"n": 0, "params": 0, "literals": 0}
    corr, forv = [], []
    for r in run_cases(worker, batches, chunk=1):
        if "harness_error" in r:
            ctx.violation({"stage": "harness error", "detail": r}, no_input=True)
            continue
        for k in agg:
            agg[k] += r[k]
        corr += r["corr"][:2]
        forv += r["for_validator"]
        for it in r["items"]:
            ctx.item(it["cls"], {"stage": "implementation-side property", "clause": it["cls"], "input": to_ir(it["case"]),
                                 "detail": it["detail"]})
    vres, verr = run_validator(forv)
    validated = 0
    if vres is None:
        ctx.violation({"stage": "harness error: jsonschema validator (python3-vt)", "detail": verr}, no_input=True)
    else:
        for c, r in zip(forv, vres):
            validated += 1
            for cls, det in r["errors"]:
                ctx.item("C06/" + cls, {"stage": "jsonschema.Draft202012Validator (python3-vt) on the emitted schema", "clause": cls,
                                        "input": to_ir(c["case"]), "detail": det})
    if not ctx.violations:
        if corr:
            ctx.violation({"stage": "correspondence: Model/JsonSchema.v vs cdd.json_schema (%s)" % corr[0]["stage"], "input": corr[0]["input"],
                           "impl_output": corr[0]["impl"], "model_output": corr[0]["model"], "n_disagreements": len(corr)}, no_input=True)
        elif not status["ok"]:
            ctx.violation({"stage": "proof", "theorem": status.get("failing_theorem"),
                           "status": {k: status[k] for k in ("theorems", "forbidden", "build_log") if k in status}}, no_input=True)
    cov = {
        "obligations": status["obligations"], "discharged": status["discharged"],
        "checker_cmd": coqbuild.CHECKER_CMD.replace("<id>", "C06"), "theorems": status["theorems"],
        "trusted_base": GLOBAL_TRUSTED_BASE + [
            "validity against the draft 2020-12 meta-schema is decided by jsonschema.Draft202012Validator (python3-vt) on every emitted "
            "schema, not by a theorem; the top-level description (docstring emitter) is not modelled",
            "pattern semantics modelled as unanchored search over an alternation of literal strings"],
        "evaluations": agg["n"], "distinct_nontrivial": len({json.dumps(c, sort_keys=True) for c in cases if c["params"]}),
        "rule": "IRs with 0..8 parameters over {int,float,str,bool,dict,list, Literal[1..4 members], Optional[..]} with well-typed / None / "
                "absent defaults, with or without prose and a return entry; emitted dict and parsed-back params compared field by field "
                "with the extracted model; every schema checked with jsonschema; non-trivial = at least one parameter",
        "parameters": agg["params"], "literal_parameters": agg["literals"], "schemas_validated": validated,
        "correspondence_disagreements": len(corr), "traces_validated_against_impl": agg["n"],
        "samples": [to_ir(cases[0]), to_ir(cases[1])],
        "build": {k: status[k] for k in ("build_s", "forbidden")},
    }
    return ctx.finish("proof", cov, assumptions=["schema validity is established by the reference validator, not proved"])


def replay(ctx, payload):
    return run(ctx)
