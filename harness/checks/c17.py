"""C17 -- analysing source never executes it or touches anything but the output."""
import json
import os
import shutil
import tempfile

from .. import coqbuild
from ..common import GLOBAL_TRUSTED_BASE
from ..fsobs import run_observed, snap_diff, snapshot, under, write_events
from ..model import call_many
from ..pool import run_cases

THEOREMS = ["C17_sites", "C17_import_time", "C17_input_eval_reaches_eval", "C17_nonvacuous",
            "C17_phase0_alphabet", "C17_allowed_excludes", "C17_phase0_example", "C17_find_spec_calls"]

SAFE_RESULT = set("abcdefghijklmnopqrstuvwxyzABCDEFGHIJKLMNOPQRSTUVWXYZ0123456789 `'\"/|.,;[]")

# ---- (C) correspondence of the phase-0 whitelist model ---------------------------------------------------------------
WORDS = ["Either", "one", "of", "or", "List", "Tuple", "Dictionary", "number", "whether", "string", "int64", "`int64`castable",
         "True", "False", "if", "on", "None", "path", "filename", "called", "at", "floating", "point", "the", "a", "default",
         "`adam`", "'sgd'", '"rmsprop"', "`a`,", "'b';", "np.ndarray", "tf.Tensor", "a/b/c", "x|y", "3", "0.5", "Defaults", "to"]
EVIL = ["__import__('os').system('x')", "().__class__.__base__", "lambda: 0", "exec('1')", "open('f','w')", "a_b", "x[0]",
        "{1: 2}", "f(1)", "`__import__('pathlib').Path('P').touch()`", "`foo_bar`", "`Tuple[int]`", "`f(x)`", "a=b", "@dec",
        "x:=1", "\\n", "`os.system('x')`", "print(1)", "`(1)`", "`[1]`", "`_`"]
SEPS = [" ", " ", " ", ". ", ", ", "; ", "\n", "\t", " or ", " of ", ".", "`.", "  ", " ", ": ", " - "]


def gen_doc(rng, evil_p):
    n = rng.randint(1, 9)
    out = []
    for _ in range(n):
        out.append(rng.choice(EVIL) if rng.random() < evil_p else rng.choice(WORDS))
        out.append(rng.choice(SEPS))
    if rng.random() < 0.5:
        out.pop()
    return "".join(out)


def impl_phase0(doc):
    from cdd.docstring.utils.parse_utils import _parse_adhoc_doc_for_typ_phase0, parse_adhoc_doc_for_typ

    words = [[]]
    cand, fst, sent = _parse_adhoc_doc_for_typ_phase0(doc, words)
    res = {"p0": [cand, fst, sent, list(words)]}
    try:
        res["typ"] = [parse_adhoc_doc_for_typ(doc, "x", False), parse_adhoc_doc_for_typ(doc, "x", True)]
    except Exception as e:  # noqa
        res["typ_raise"] = type(e).__name__
    return res


def p0_worker(batch):
    out = {"n": len(batch), "mismatch": [], "unsafe": [], "sent": 0, "typed": 0, "raised": 0}
    models = call_many("adhoc_phase0", batch)
    for doc, m in zip(batch, models):
        try:
            r = impl_phase0(doc)
        except Exception as e:  # noqa
            out["raised"] += 1
            out["mismatch"].append({"input": doc, "impl": "raised " + repr(e), "model": m})
            continue
        if r["p0"] != m:
            out["mismatch"].append({"input": doc, "impl": r["p0"], "model": m})
        if r["p0"][2] is not None:
            out["sent"] += 1
        for t in r.get("typ", []):
            if t is not None:
                out["typed"] += 1
                bad = sorted(set(t) - SAFE_RESULT)
                if bad:
                    out["unsafe"].append({"input": doc, "result": t, "chars": bad})
    return out


# ---- (T) validation: real runs under the audit hook ------------------------------------------------------------------
DRIVER = r'''
import sys, os, ast, json, io, contextlib
root = sys.argv[1]
src = open(os.path.join(root, "victim.py")).read()
mod = ast.parse(src)
import cdd.class_.parse, cdd.function.parse, cdd.docstring.parse, cdd.argparse_function.parse, cdd.json_schema.parse
import cdd.class_.emit, cdd.function.emit, cdd.docstring.emit, cdd.argparse_function.emit, cdd.json_schema.emit, cdd.pydantic.emit
import cdd.sqlalchemy.emit, cdd.shared.docstring_parsers
done = {"parsed": 0, "emitted": 0, "raised": 0}
def attempt(f, *a, **k):
    try:
        with contextlib.redirect_stderr(io.StringIO()):
            r = f(*a, **k)
        return r
    except BaseException as e:
        done["raised"] += 1
        return None
irs = []
for node in mod.body:
    if isinstance(node, ast.ClassDef):
        ir = attempt(cdd.class_.parse.class_, node)
    elif isinstance(node, ast.FunctionDef):
        ir = attempt(cdd.function.parse.function, node)
        ir2 = attempt(cdd.argparse_function.parse.argparse_ast, node)
        if ir2: irs.append(ir2)
    else:
        continue
    if ir:
        irs.append(ir); done["parsed"] += 1
    ds = ast.get_docstring(node, clean=False) if isinstance(node, (ast.ClassDef, ast.FunctionDef)) else None
    if ds:
        for kw in ({}, {"emit_default_doc": True}, {"parse_original_whitespace": True}):
            ir3 = attempt(cdd.docstring.parse.docstring, ds, **kw)
            if ir3: irs.append(ir3); done["parsed"] += 1
for ir in irs:
    ir.setdefault("name", "Victim")
    for em in (cdd.class_.emit.class_, cdd.function.emit.function, cdd.argparse_function.emit.argparse_function,
               cdd.json_schema.emit.json_schema, cdd.pydantic.emit.pydantic, cdd.sqlalchemy.emit.sqlalchemy,
               cdd.sqlalchemy.emit.sqlalchemy_table):
        kw = {"function_name": "victim_fn", "function_type": "static"} if em is cdd.function.emit.function else {}
        r = attempt(em, ir, **kw)
        if r is not None:
            done["emitted"] += 1
    for style in ("rest", "google", "numpydoc"):
        if attempt(cdd.docstring.emit.docstring, ir, docstring_format=style) is not None:
            done["emitted"] += 1
# objects that are ALREADY in memory (the caller imported its own module): their string annotations are text of the analysed source and
# stay text -- parsing the live function / class must not evaluate them
live_dir = os.path.join(os.path.dirname(os.path.abspath(sys.argv[0])), "livepkg")
os.makedirs(live_dir, exist_ok=True)
sent_live = os.path.join(root, "sentinels", "S_live_annotation")
open(os.path.join(live_dir, "live_mod.py"), "w").write(
    "def live_fn(a: \"__import__('os').mkdir(%r)\" = 1, b: 'int' = 2) -> 'str':\n"
    "    \"\"\"\n    Live function\n\n    :param a: the a\n\n    :param b: the b\n\n    :return: it\n    \"\"\"\n    return str(a)\n\n\n"
    "class Live(object):\n    \"\"\"\n    Live class\n\n    :cvar x: the x\n    \"\"\"\n\n    x: \"__import__('os').mkdir(%r)\" = 5\n\n"
    "    def __init__(self, n: \"__import__('os').mkdir(%r)\" = 3):\n        \"\"\"\n        Init\n\n        :param n: the n\n        \"\"\"\n        self.n = n\n"
    % (sent_live, sent_live + "_cls", sent_live + "_init"))
sys.path.insert(0, live_dir)
try:
    import live_mod
    for obj, fn_ in ((live_mod.live_fn, cdd.function.parse.function), (live_mod.Live, cdd.class_.parse.class_)):
        if attempt(fn_, obj) is not None:
            done["parsed"] += 1
except BaseException:
    done["raised"] += 1
# a route whose docstring carries a yml block: the block is data for the routes / OpenAPI parser
import cdd.routes.parse.bottle
sent = os.path.join(root, "sentinels", "S_yaml")
route_src = (
    "@rest_api.get('/api/config')\n"
    "def read():\n"
    '    """Read `Config`\n\n'
    "    ```yml\n"
    "    responses:\n"
    "      '200':\n"
    "        description: !!python/object/apply:os.mkdir [\"%s\"]\n"
    "    ```\n\n"
    "    :return: the config\n"
    '    """\n'
    "    return {}\n" % sent
)
if attempt(cdd.routes.parse.bottle.bottle, ast.parse(route_src).body[0]) is not None:
    done["parsed"] += 1
print("@@" + json.dumps(done))
'''

PAYLOADS = [
    "__import__('os').system('touch {S}')",
    "open('{S}', 'w').write('x')",
    "__import__('pathlib').Path('{S}').touch()",
    "().__class__.__base__.__subclasses__()",
    "(lambda: __import__('os').mkdir('{S}'))()",
    "[c for c in ().__class__.__base__.__subclasses__() if c.__name__ == 'Popen'][0](['touch', '{S}'])",
    "exec(\"open('{S}','w')\")",
    "__import__('subprocess').run(['touch', '{S}'])",
    "__import__('socket').socket().connect(('127.0.0.1', 9))",
]


def gen_victim(rng, sdir):
    """An adversarial module: payloads as defaults, annotations, type strings, descriptions, module-level code."""
    k = [0]

    def P():
        k[0] += 1
        return rng.choice(PAYLOADS).replace("{S}", os.path.join(sdir, "S%d" % k[0]))

    def desc():
        c = rng.randint(0, 7)
        if c == 6:
            # a type spelled through a module that merely sits next to the analysed file (sentinels/../helpers.py, importable from the
            # working directory of `python -m cdd`): mentioning it must not import it
            return rng.choice(["A `helpers.Source` or `str`.", "List of `helpers.Source`.", "A helpers/str", "Either `helpers` or `os`."])
        if c == 7:
            return "One of `helpers.Source`, `b` or `c`."
        if c == 0:
            return "Either `%s` or nothing." % P()
        if c == 1:
            return "The thing. Defaults to %s" % P()
        if c == 2:
            return "One of `%s`, `b` or `c`. Defaults to `%s`" % (P(), P())
        if c == 3:
            return "number of %s or %s. More text" % (P(), P())
        if c == 4:
            return "whether to %s; List of %s" % (P(), P())
        return "plain description"

    lines = ['"""victim module"""', "import os", "# module-level side effect (must never run):",
             "open(%r, 'w').write('module-level code ran')" % os.path.join(sdir, "S_module"), ""]
    style = rng.choice(["rest", "google", "numpydoc"])
    names = ["alpha", "beta", "gamma", "delta"][: rng.randint(1, 4)]
    # function
    sig = ", ".join("%s=%s" % (n, P()) if rng.random() < 0.5 else "%s: (%s) = 5" % (n, P()) for n in names)
    lines.append("def victim_fn(%s) -> (%s):" % (sig, P()))
    doc = ["    \"\"\"", "    Header prose with `%s` or not." % P().replace('"""', ""), ""]
    if style == "rest":
        for n in names:
            doc.append("    :param %s: %s" % (n, desc()))
            doc.append("    :type %s: ```%s```" % (n, rng.choice(["int", "str", P(), "Optional[int]"])))
            doc.append("")
        doc.append("    :return: %s" % desc())
        doc.append("    :rtype: ```%s```" % rng.choice(["int", P()]))
    elif style == "google":
        doc.append("    Args:")
        for n in names:
            doc.append("      %s (%s): %s" % (n, rng.choice(["int", "str", P()]), desc()))
        doc.append("")
        doc.append("    Returns:")
        doc.append("      %s: %s" % (rng.choice(["int", P()]), desc()))
    else:
        doc += ["    Parameters", "    ----------"]
        for n in names:
            doc.append("    %s : %s" % (n, rng.choice(["int", "str", P()])))
            doc.append("      %s" % desc())
        doc += ["", "    Returns", "    -------", "    %s" % rng.choice(["int", P()]), "      %s" % desc()]
    doc.append('    """')
    lines += doc + ["    return (%s)" % P(), ""]
    # class
    lines.append("class Victim(object):")
    lines.append('    """')
    lines.append("    Victim class with `%s` or such." % P())
    lines.append("")
    for n in names:
        lines.append("    :cvar %s: %s" % (n, desc()))
    lines.append('    """')
    for n in names:
        lines.append("    %s: %s = %s" % (n, rng.choice(["int", "(%s)" % P()]), P()))
    lines.append("")
    return "\n".join(lines) + "\n"


DANGEROUS_NAMES = {"__import__", "open", "system", "exec", "eval", "compile", "getattr", "setattr", "__class__", "__base__",
                   "__subclasses__", "__globals__", "__builtins__", "mkdir", "touch", "Path", "run", "Popen", "socket", "connect",
                   "write", "remove", "unlink"}


def audit_case(case):
    seed, kind = case
    import random
    rng = random.Random(seed)
    root = tempfile.mkdtemp(prefix="verif-c17-")
    res = {"seed": seed, "kind": kind, "problems": []}
    try:
        tree = os.path.join(root, "tree")
        work = os.path.join(root, "work")
        sdir = os.path.join(tree, "sentinels")
        os.makedirs(sdir), os.makedirs(work)
        victim = os.path.join(tree, "victim.py")
        src = gen_victim(rng, sdir)
        open(victim, "w").write(src)
        open(os.path.join(tree, "helpers.py"), "w").write(
            "import os\nopen(%r, 'w').write('a module named in a docstring was imported')\n\n\nclass Source(object):\n    pass\n" % os.path.join(sdir, "S_helpers"))
        res["victim_head"] = src[:300]
        allowed_writes = []
        before = snapshot(tree)
        if kind == "library":
            drv = os.path.join(work, "driver.py")
            open(drv, "w").write(DRIVER)
            r = run_observed(work, [drv, tree], mode="-f", cwd=tree, timeout=300, extra_path=[tree])
        elif kind == "doctrans":
            fmt = rng.choice(["rest", "google", "numpydoc"])
            ta = rng.choice(["--type-annotations", "--no-type-annotations"])
            r = run_observed(work, ["cdd", "doctrans", "--filename", victim, "--format", fmt, ta], cwd=tree, timeout=300)
            allowed_writes = [victim]
        elif kind == "sync_properties":
            # no --input-eval: the input module is DATA.  The selected name is bound where a static lookup does not find it (under try /
            # if / by unpacking), and the module's top-level code would leave a sentinel if it ran
            inp = os.path.join(tree, "settings.py")
            shape = rng.choice(["try:\n    import fastjson\n    BACKENDS = ('fast', 'slow')\nexcept ImportError:\n    BACKENDS = ('slow',)\n",
                                "if True:\n    BACKENDS = ('sgd', 'adam')\n", "BACKENDS, OTHER = ('sgd', 'adam'), 1\n",
                                "BACKENDS = ('sgd', 'adam')\n"])
            open(inp, "w").write("import os\nopen(%r, 'w').write('the analysed input module was executed')\n%s" % (os.path.join(sdir, "S_settings"), shape))
            tgt = os.path.join(tree, "target.py")
            open(tgt, "w").write('"""t"""\n\nclass Trainer(object):\n    """\n    t\n\n    :cvar backend: b\n    """\n    backend: str = "sgd"\n')
            before = snapshot(tree)
            r = run_observed(work, ["cdd", "sync_properties", "--input-filename", inp, "--input-param", "BACKENDS", "--output-filename", tgt,
                                    "--output-param", "Trainer.backend"], cwd=tree, timeout=300)
            allowed_writes = [tgt]
        elif kind.startswith("gen_phase2"):
            # foreign-key resolution of `gen --phase 2`: the model names another model through `from models.<x> import <X>`; that
            # sibling file (and, in the "/package" flavour, the package's __init__.py) is DATA to read, never a module to import
            models = os.path.join(tree, "models")
            os.makedirs(models)
            pkg = kind.endswith("/package")
            if pkg:
                open(os.path.join(models, "__init__.py"), "w").write(
                    "open(%r, 'w').write('the package of the analysed models was imported')\n" % os.path.join(sdir, "S_models_init"))
            other, Other = rng.choice([("author", "Author"), ("owner", "Owner"), ("region", "Region")])
            open(os.path.join(models, other + ".py"), "w").write(
                "open(%r, 'w').write('a model named by the analysed file was executed')\n"
                "from sqlalchemy import Column, Integer, String\nfrom sqlalchemy.orm import declarative_base\n\nBase = declarative_base()\n\n\n"
                'class %s(Base):\n    """\n    One of them\n\n    :cvar id: primary key\n    :cvar name: the name"""\n\n    __tablename__ = "%s"\n\n'
                '    id = Column(Integer, primary_key=True, doc="primary key")\n    name = Column(String, doc="the name")\n'
                % (os.path.join(sdir, "S_sibling"), Other, other))
            book = os.path.join(models, "book.py")
            open(book, "w").write(
                "from sqlalchemy import Column, ForeignKey, Integer, String\n\nfrom models.%s import %s\nfrom models.connection import Base\n\n\n"
                'class Book(Base):\n    """\n    A book\n\n    :cvar id: primary key\n    :cvar %s: who it belongs to"""\n\n    __tablename__ = "book"\n\n'
                '    id = Column(Integer, primary_key=True, doc="primary key")\n    %s = Column(%s, ForeignKey("%s"), nullable=True, doc="who it belongs to")\n'
                % (other, Other, other, other, Other, Other))
            before = snapshot(tree)
            r = run_observed(work, ["cdd", "gen", "--name-tpl", "{name}", "--input-mapping", book, "--parse", "sqlalchemy", "--emit",
                                    rng.choice(["sqlalchemy", "sqlalchemy_table", "sqlalchemy_hybrid"]), "-o", book, "--phase", "2"], cwd=tree, timeout=300,
                             extra_path=[tree])     # `python -m cdd` run from the project directory has it on sys.path
            allowed_writes = [book]
        elif kind == "sync":
            tgt = os.path.join(tree, "target.py")
            open(tgt, "w").write('"""t"""\n\nclass Victim(object):\n    """\n    old\n\n    :cvar zzz: z\n    """\n    zzz: int = 1\n')
            before = snapshot(tree)
            r = run_observed(work, ["cdd", "sync", "--class", tgt, "--class-name", "Victim", "--function", victim,
                                    "--function-name", "victim_fn", "--truth", "function"], cwd=tree, timeout=300)
            allowed_writes = [tgt, victim]
        else:  # gen from file
            outp = os.path.join(tree, "generated.py")
            mapping = os.path.join(tree, "mapping_mod.py")
            # the mapping module is imported BY DESIGN (explicit --input-mapping); the victim source is data
            r = run_observed(work, ["cdd", "gen", "--name-tpl", "{name}Gen", "--input-mapping", "victim.input_map", "--parse",
                                    "class", "--emit", rng.choice(["class", "argparse", "json_schema"]), "--output-filename",
                                    outp], cwd=tree, timeout=300, extra_path=[tree])
            res["skipped"] = "gen imports the mapping module by design; only exit status is recorded"
            res["rc"] = r["rc"]
            return res
        after = snapshot(tree)
        res["rc"] = r["rc"]
        res["err_tail"] = r["err"].strip().splitlines()[-1:] if r["rc"] else []
        for line in r["out"].splitlines():
            if line.startswith("@@"):
                res["done"] = json.loads(line[2:])
        diff = snap_diff(before, after)
        sent = [k for k in diff["created"] if k.startswith("sentinels" + os.sep)]
        if sent:
            res["problems"].append({"clause": "code taken from the analysed source/docstring was executed (sentinel created)",
                                    "sentinels": sent[:5]})
        wev = write_events(r["events"], ignore_under=[work])
        bad_w = [e for e in wev if not any(os.path.realpath(str(e[1])) == os.path.realpath(a) for a in allowed_writes)]
        if bad_w:
            res["problems"].append({"clause": "a file other than the named output file was written", "events": bad_w[:5]})
        changed = [k for k in diff["created"] + diff["deleted"] + diff["modified"]
                   if os.path.join(tree, k) not in allowed_writes and k not in (".",)]
        changed = [k for k in changed if not (before.get(k, [""])[0] == "dir" and k in after)]
        if changed and not sent:
            res["problems"].append({"clause": "the file system changed outside the named output file", "paths": changed[:5]})
        procs = [e for e in r["events"] if e["ev"].startswith(("subprocess", "os.system", "os.exec", "os.posix", "os.fork",
                                                                 "os.spawn", "pty"))]
        if procs:
            res["problems"].append({"clause": "a process was spawned", "events": procs[:3]})
        net = [e for e in r["events"] if e["ev"].startswith(("socket.connect", "socket.bind", "socket.send", "urllib", "http", "ftplib",
                                                               "smtplib", "socket.getaddr", "socket.gethost"))]
        if net:
            res["problems"].append({"clause": "network access", "events": net[:3]})
        evals = [e for e in r["events"] if e["ev"] == "exec" and e.get("file") in ("<string>", "<unknown>", "<ast>")]
        res["n_eval"] = len(evals)
        for e in evals:
            names = set(e.get("names") or [])
            # (stdlib dataclasses / namedtuple exec generated code named __create_fn__ etc.: not from the analysed text)
            if names & DANGEROUS_NAMES:
                res["problems"].append({"clause": "an expression taken from the analysed text was evaluated", "event": e})
                break
        imps = [e["module"] for e in r["events"] if e["ev"] == "import"]
        bad_imp = [m for m in imps if m in ("pathlib2", "victim") or m.startswith("victim") or m == "models" or m.startswith("models.")]
        if bad_imp:
            res["problems"].append({"clause": "the analysed module was imported", "modules": bad_imp[:3]})
    finally:
        shutil.rmtree(root, ignore_errors=True)
    return res


def run(ctx):
    status = coqbuild.prove("C17", THEOREMS)
    meta = status["gen"].get("effects", {})
    rng = ctx.rng
    # correspondence
    n_docs = 3000 if ctx.quick else 120000
    docs = [gen_doc(rng, 0.0 if i % 3 == 0 else 0.35) for i in range(n_docs)]
    docs += [w + s + v for w in WORDS[:12] for s in (" or ", " of ", ". ") for v in EVIL]
    docs = list(dict.fromkeys(docs))
    batches = [docs[i:i + 200] for i in range(0, len(docs), 200)]
    agg = {"n": 0, "mismatch": [], "unsafe": [], "sent": 0, "typed": 0, "raised": 0}
    for r in run_cases(p0_worker, batches, chunk=1):
        if "harness_error" in r:
            ctx.violation({"stage": "harness error", "detail": r}, no_input=True)
            continue
        for k in ("n", "sent", "typed", "raised"):
            agg[k] += r[k]
        agg["mismatch"] += r["mismatch"][:5]
        agg["unsafe"] += r["unsafe"][:5]
    for u in agg["unsafe"][:5]:
        ctx.violation({"stage": "implementation-side property", "input": {"doc": u["input"]},
                       "clause": "text handed to eval() by the type-hint probe contains characters outside the whitelist "
                                 "(a call / subscript / dunder can be spelled)", "impl_output": u["result"], "chars": u["chars"]})
    # audit runs
    n_audit = 28 if ctx.quick else 168
    kinds = ["library", "library", "doctrans", "sync", "sync_properties", "gen_phase2", "gen_phase2/package"]
    cases = [(rng.randrange(1 << 30), kinds[i % len(kinds)]) for i in range(n_audit)]
    audits = list(run_cases(audit_case, cases, chunk=1))
    for a in audits:
        if "harness_error" in a:
            ctx.violation({"stage": "harness error", "detail": a}, no_input=True)
            continue
        for pr in a.get("problems", []):
            ctx.item("C17/audit/" + pr["clause"][:50], {"stage": "audit-hook observation", "clause": pr["clause"],
                                                        "input": {"victim_seed": a["seed"], "kind": a["kind"]}, "detail": pr})
    if not ctx.violations:
        if agg["mismatch"]:
            m = agg["mismatch"][0]
            ctx.violation({"stage": "correspondence: Model/Adhoc.v phase0 vs _parse_adhoc_doc_for_typ_phase0",
                           "input": {"doc": m["input"]}, "impl_output": m["impl"], "model_output": m["model"],
                           "note": "the whitelist model no longer describes the code; no generated text made the probe evaluate "
                                   "a non-whitelisted character and no audit run showed an effect"}, no_input=True)
        elif not status["ok"]:
            path = None
            try:
                from translate import effects
                import re
                w, order, blocks = effects.build("input_eval")
                src = open(os.path.join(coqbuild.COQ, "Properties", "C17.v")).read()
                appr = set(x.replace('""', '"') for x in re.findall(r'^\s*"((?:[^"]|"")*)";?\s*$', src, re.M))
                keys = [effects.site_key(s) for s in w.sites]
                okset = {i for i, k in enumerate(keys) if k in appr}
                for q in effects.analysis_entries(w):
                    path = effects.find_path(order, blocks, w.fns[q].idx, False, lambda k, i: i not in okset)
                    if path:
                        if path[-1][0] == "EFF":
                            path.append(w.sites[path[-1][2]])
                        break
            except Exception as e:  # noqa
                path = ["search failed: %r" % (e,)]
            ctx.violation({"stage": "proof", "theorem": status.get("failing_theorem"), "unapproved_site_path": path,
                           "note": "an exec/eval/import/process/network/file-write site that is not in the approved inventory is "
                                   "reachable from a parser/emitter/doctrans/sync/gen entry point (or an approved call changed "
                                   "its text); adversarial runs under the audit hook showed no effect",
                           "status": {k: status[k] for k in ("theorems", "forbidden", "build_log") if k in status}},
                          no_input=True)
    kinds_n = {}
    for a in audits:
        kinds_n[a.get("kind")] = kinds_n.get(a.get("kind"), 0) + 1
    cov = {
        "obligations": status["obligations"], "discharged": status["discharged"],
        "checker_cmd": coqbuild.CHECKER_CMD.replace("<id>", "C17"), "theorems": status["theorems"],
        "trusted_base": GLOBAL_TRUSTED_BASE + [
            "translate/effects.py (site inventory + guards w.r.t. input_eval); approved list in Properties/C17.v is by inspection",
            "CPython: an expression over the whitelist alphabet cannot contain a call, lambda, dunder or assignment expression",
            "phase 1 / _union_literal_from_sentence only select substrings of the phase-0 sentence or constants (not "
            "transcribed; checked on the implementation's result per case)"],
        "evaluations": agg["n"] + len(audits),
        "distinct_nontrivial": agg["sent"] + sum(1 for a in audits if a.get("n_eval", 0) or a.get("done")),
        "rule": "phase-0 docs: grammar over trigger words, quotes, backticks, separators and adversarial fragments, non-trivial = "
                "a sentence with or/of was extracted; audit runs: one adversarial module per case through library parsers+"
                "emitters / doctrans / sync under sys.addaudithook, non-trivial = the run parsed something or evaluated a probe",
        "phase0_docs": agg["n"], "phase0_sentences": agg["sent"], "phase0_typed_results": agg["typed"],
        "phase0_mismatches": len(agg["mismatch"]), "audit_runs": kinds_n,
        "audit_probe_evals": sum(a.get("n_eval", 0) for a in audits),
        "traces_validated_against_impl": len(audits),
        "skeleton": {k: meta.get(k) for k in ("functions", "sites")},
        "analysis_entries": len(meta.get("analysis_entries") or []),
        "samples": [docs[1], docs[len(docs) // 2], {"audit": {k: audits[0].get(k) for k in ("kind", "rc", "done", "n_eval")}}],
        "build": {k: status[k] for k in ("build_s", "forbidden")},
    }
    return ctx.finish("proof", cov, assumptions=[
        "dynamic dispatch through getattr/import_module results is outside the skeleton (the dispatched names are closed "
        "tables: theorem covers the import_module call texts)"])


def replay(ctx, payload):
    inp = payload.get("input") or {}
    if "doc" in inp:
        r = impl_phase0(inp["doc"])
        print(r)
        bad = [t for t in r.get("typ", []) if t is not None and set(t) - SAFE_RESULT]
        return 1 if bad else 0
    if "victim_seed" in inp:
        a = audit_case((inp["victim_seed"], inp["kind"]))
        print({k: a.get(k) for k in ("kind", "rc", "problems")})
        return 1 if a.get("problems") else 0
    return run(ctx)
