"""C16 -- generated OpenAPI document is closed and matches the requested CRUD."""
import ast
import json
import os
import re
import shutil
import subprocess
import sys
import tempfile

from .. import coqbuild
from ..common import GLOBAL_TRUSTED_BASE, REPO
from ..model import call_many
from ..pool import guarded, run_cases

THEOREMS = ["C16_closed_emit", "C16_crud_exact", "C16_path_params_declared", "C16_bulk_key_refuted", "C16_bulk_key_ok_example",
            "C16_closed_nonvacuous", "C16_entities_are_the_fenced_words", "C16_entities_example", "C16_entities_refuted"]
HTTP = ("get", "put", "post", "delete", "patch", "trace", "options", "head")
NAMES1 = ["Foo", "Bar", "Item", "Order", "Widget"]
NAMES2 = ["UserProfile", "user_profile", "order_item_tbl", "HTTPLog", "foo_tbl", "Api2Key"]
COLS = [("size", "Integer", "how big"), ("label", "String", "the label"), ("active", "Boolean", "whether active"),
        ("ratio", "Float", "the ratio"), ("note", "String", "a note"), ("count", "Integer", "how many"), ("_rev", "Integer", "revision")]
CRUDS = ["C", "R", "D", "CR", "CD", "RD", "CRD", "DRC", "RC"]


# ---- json <-> val encoding used by Run/OpenApiRun.v ------------------------------------------------------------------
def enc(j):
    if isinstance(j, bool):
        return j
    if isinstance(j, str):
        return j
    if j is None or isinstance(j, (int, float)):
        return "\x00num:" + json.dumps(j)
    if isinstance(j, dict):
        return ["o", [[k, enc(v)] for k, v in j.items()]]
    if isinstance(j, (list, tuple, set, frozenset)):
        return ["a", [enc(x) for x in (sorted(j) if isinstance(j, (set, frozenset)) else j)]]
    raise TypeError(type(j))


def dec(v):
    if isinstance(v, bool):
        return v
    if isinstance(v, str):
        return json.loads(v[5:]) if v.startswith("\x00num:") else v
    if isinstance(v, list) and len(v) == 2 and v[0] == "o":
        return {k: dec(x) for k, x in v[1]}
    if isinstance(v, list) and len(v) == 2 and v[0] == "a":
        return [dec(x) for x in v[1]]
    return v


def all_refs(doc, out=None):
    out = [] if out is None else out
    if isinstance(doc, dict):
        for k, v in doc.items():
            if k == "$ref" and isinstance(v, str):
                out.append(v)
            all_refs(v, out)
    elif isinstance(doc, list):
        for x in doc:
            all_refs(x, out)
    return out


def closure_problems(doc):
    """The property itself on a document: refs resolve, request bodies defined, template parameters declared."""
    probs = []
    try:
        json.dumps(doc)
    except Exception as e:  # noqa
        probs.append(("not-serialisable", str(e)))
    for r in all_refs(doc):
        if not r.startswith("#/"):
            probs.append(("ref-not-local", r))
            continue
        cur = doc
        ok = True
        for part in r[2:].split("/"):
            if isinstance(cur, dict) and part in cur:
                cur = cur[part]
            else:
                ok = False
                break
        if not ok:
            probs.append(("dangling-ref", r))
    for p, item in (doc.get("paths") or {}).items():
        for name in re.findall(r"\{([^}]*)\}", p):
            declared = [q.get("name") for q in (item.get("parameters") or []) if isinstance(q, dict) and q.get("in") == "path"]
            if name not in declared:
                probs.append(("path-parameter-undeclared", "%s: %s (declared %s)" % (p, name, declared)))
    return probs


def ops(doc):
    return {p: sorted(k for k in v if k in HTTP) for p, v in (doc.get("paths") or {}).items()}


def expected_ops(entries):
    exp = {}
    for name, _m, route, _id, crud in entries:
        if "C" in crud:
            exp[route] = ["post"]
        if not set(crud) - set("CRUD"):
            exp["%s/{%s}" % (route, _id)] = sorted((["get"] if "R" in crud else []) + (["delete"] if "D" in crud else []))
    return exp


def gen_model_schema(rng, name):
    cols = rng.sample(COLS, rng.randint(1, 4))
    props = {"id": {"description": "[PK] identifier", "type": "string"}}
    for c, t, d in cols:
        props[c] = {"description": d, "type": {"Integer": "integer", "String": "string", "Boolean": "boolean", "Float": "number"}[t]}
        if rng.random() < 0.4:
            props[c]["default"] = {"integer": 5, "string": "x", "boolean": True, "number": 0.5}[props[c]["type"]]
    return {"$id": "https://offscale.io/%s.schema.json" % name, "$schema": "https://json-schema.org/draft/2020-12/schema",
            "description": "%s record" % name, "type": "object", "properties": props, "required": ["id"] + [c[0] for c in cols[:1]]}


def gen_emit_case(rng):
    k = rng.randint(1, 3)
    pool = NAMES1 + NAMES2
    names = [rng.choice(pool) for _ in range(k)] if rng.random() < 0.2 else rng.sample(pool, k)
    entries = []
    for n in names:
        prefix = rng.choice(["/api", "/v1", ""])
        route = "%s/%s" % (prefix, n.lower()) if rng.random() < 0.85 else "/api/shared"
        entries.append([n, gen_model_schema(rng, n), route, rng.choice(["id", "email", "slug", "pk"]), rng.choice(CRUDS)])
    return entries


def emit_worker(batch):
    from cdd.compound.openapi.emit import openapi
    from cdd.compound.openapi.utils.emit_openapi_utils import NameModelRouteIdCrud
    from cdd.tests.mocks.json_schema import server_error_schema

    out = {"n": len(batch), "items": [], "corr": [], "with_collision": 0}
    impl = []
    for entries in batch:
        st, v = guarded(lambda es: json.loads(json.dumps(openapi([NameModelRouteIdCrud(*e) for e in es]))), entries, 20)
        impl.append((st, v))
    ses = enc(dict(server_error_schema))
    models = call_many("openapi", [[ses, [[e[0], enc(e[1]), e[2], e[3], e[4]] for e in entries]] for entries in batch])
    for entries, (st, doc), m in zip(batch, impl, models):
        if st != "ok":
            out["items"].append({"cls": "C16/emit-raises", "input": entries, "detail": doc})
            continue
        if len({e[2] for e in entries}) < len(entries) or len({e[0] for e in entries}) < len(entries):
            out["with_collision"] += 1
        md = dec(m)
        if md != doc:
            out["corr"].append({"input": entries, "impl": doc, "model": md})
        for cls, det in closure_problems(doc):
            out["items"].append({"cls": "C16/emit/" + cls, "input": entries, "detail": det})
        # operations exactly those requested (when names/routes do not collide, each entry is independent)
        if len({e[2] for e in entries}) == len(entries):
            if ops(doc) != expected_ops(entries):
                out["items"].append({"cls": "C16/emit/operations", "input": entries,
                                     "detail": {"got": ops(doc), "expected": expected_ops(entries)}})
        for e in entries:
            if "C" in e[4] and (e[0] + "Body") not in doc["components"]["requestBodies"]:
                out["items"].append({"cls": "C16/emit/request-body-missing", "input": entries, "detail": e[0]})
    return out


# ---- openapi_bulk over generated SQLAlchemy models + routes generated by gen_routes -----------------------------------
BULK_DRIVER = r'''
import sys, os, json, tempfile, ast
job = json.load(open(sys.argv[1]))
from cdd.compound.openapi.gen_openapi import openapi_bulk
from cdd.compound.openapi.gen_routes import gen_routes, upsert_routes
d = os.path.dirname(sys.argv[1])
model_path = os.path.join(d, "models.py"); routes_path = os.path.join(d, "routes.py")
open(model_path, "w").write(job["models_src"])
HEADER = "from bottle import Bottle, request, response\n\n%s = Bottle(catchall=False, autojson=True)\n\n" % job["app"]
open(routes_path, "w").write(HEADER)
res = {"steps": []}
try:
    routes_paths = [routes_path]
    for i, m in enumerate(job["models"]):
        routes, pk = gen_routes(app=job["app"], model_path=model_path, model_name=m["name"], crud=m["crud"], route=m["route"])
        rp = routes_path
        if job.get("routes_file_per_model") and i > 0:
            rp = os.path.join(d, "routes_%d.py" % i)
            open(rp, "w").write(HEADER)
            routes_paths.append(rp)
        upsert_routes(app=job["app"], routes=routes, routes_path=rp, route=m["route"], primary_key=pk)
        res["steps"].append([m["name"], pk])
    doc = openapi_bulk(app_name=job["app"], model_paths=[model_path], routes_paths=routes_paths)
    res["doc"] = json.loads(json.dumps(doc))
    # what the OpenAPI emitter writes for the same (name, route, primary key, crud) tuples -- the primary key is the generator's own
    from cdd.compound.openapi.emit import openapi as emit_openapi
    from cdd.compound.openapi.utils.emit_openapi_utils import NameModelRouteIdCrud
    res["expected_paths"] = json.loads(json.dumps(emit_openapi(
        [NameModelRouteIdCrud(name=m["name"], model={}, route=m["route"], id=m["pk"], crud=m["crud"]) for m in job["models"]])["paths"]))
except BaseException as e:
    import traceback
    res["error"] = type(e).__name__ + ": " + str(e)[:200]
print("@@" + json.dumps(res))
'''


def gen_bulk_case(rng, names=None, nodoc=None):
    k = rng.randint(1, 3)
    names = names or rng.sample(NAMES1 + NAMES2[:2], k)
    src = ["from sqlalchemy import Boolean, Column, Float, Integer, String", "from sqlalchemy.orm import declarative_base", "",
           "Base = declarative_base()", "", ""]
    models = []
    for n in names:
        cols = rng.sample(COLS, rng.randint(1, 5))
        explicit_pk = rng.random() < 0.7
        pk = rng.choice(["id", "email", "slug", "_id"])          # (a leading underscore is an ordinary column name, e.g. CouchDB's _id / _rev)
        # the primary key column: documented or not, first or anywhere among the (documented) columns
        pk_doc = rng.random() < 0.7
        pk_at = 0 if rng.random() < 0.5 else rng.randint(0, len(cols))
        doc_lines = ["    :cvar %s: %s" % (c[0], c[2]) for c in cols]
        col_lines = ['    %s = Column(%s, doc="%s", nullable=True)' % (c[0], c[1], c[2]) for c in cols]
        if pk_doc:
            doc_lines.insert(pk_at, "    :cvar %s: %s" % (pk, "identifier"))
        col_lines.insert(pk_at, '    %s = Column(String, %sprimary_key=True)' % (pk, 'doc="identifier", ' if pk_doc else ""))
        doc = ["    %s record" % n, ""] + doc_lines
        body = ['    __tablename__ = "%s"' % n.lower(), ""] + col_lines
        if (rng.random() < 0.3) if nodoc is None else nodoc:
            # a model without a class docstring (descriptions live on the columns only)
            src += ["class %s(Base):" % n] + body + ["", ""]
        else:
            src += ["class %s(Base):" % n, '    """', "\n".join(doc) + '"""', ""] + body + ["", ""]
        prefix = rng.choice(["/api", "/v1"])
        models.append({"name": n, "crud": rng.choice(["CRD", "CR", "RD", "C", "R", "CD", "D"]), "route": "%s/%s" % (prefix, n.lower()),
                       "pk": pk, "pk_documented": pk_doc, "first_column": pk if pk_at == 0 else cols[0][0]})
    return {"app": rng.choice(["api", "rest_api"]), "models_src": "\n".join(src), "models": models,
            "routes_file_per_model": len(models) > 1 and rng.random() < 0.5}


def bulk_worker(arg):
    seed, job = arg
    d = tempfile.mkdtemp(prefix="verif-c16-")
    try:
        jf = os.path.join(d, "job.json")
        json.dump(job, open(jf, "w"))
        drv = os.path.join(d, "driver.py")
        open(drv, "w").write(BULK_DRIVER)
        env = dict(os.environ, PYTHONPATH=REPO, PYTHONHASHSEED=str(seed % 32), PYTHONDONTWRITEBYTECODE="1")
        p = subprocess.run([sys.executable, "-W", "ignore", drv, jf], stdout=subprocess.PIPE, stderr=subprocess.PIPE, text=True,
                           env=env, cwd=d, timeout=120)
        res = None
        for line in p.stdout.splitlines():
            if line.startswith("@@"):
                res = json.loads(line[2:])
        return {"job": job, "res": res, "stderr": p.stderr[-300:] if res is None else ""}
    except subprocess.TimeoutExpired:
        return {"job": job, "res": None, "stderr": "TIMEOUT"}
    finally:
        shutil.rmtree(d, ignore_errors=True)


def bulk_key_expr():
    """source text of the component key in cdd/compound/openapi/gen_openapi.py:openapi_bulk -- the first element of the pair built by
    `lambda table: (<key>, cdd.json_schema.emit.json_schema(table))`; None when that shape is gone (fail closed)"""
    try:
        tree = ast.parse(open(os.path.join(REPO, "cdd", "compound", "openapi", "gen_openapi.py")).read())
    except Exception:  # noqa
        return None
    for node in ast.walk(tree):
        if isinstance(node, ast.Lambda) and [a.arg for a in node.args.args] == ["table"] and isinstance(node.body, ast.Tuple) \
                and len(node.body.elts) == 2 and "json_schema" in ast.unparse(node.body.elts[1]):
            expr = node.body.elts[0]
            names = {n.id for n in ast.walk(expr) if isinstance(n, ast.Name)}
            calls = [n for n in ast.walk(expr) if isinstance(n, ast.Call)]
            if names == {"table"} and all(isinstance(c.func, ast.Attribute) for c in calls):     # a method chain on table[...] only
                return ast.unparse(expr)
    return None


def run(ctx):
    status = coqbuild.prove("C16", THEOREMS)
    rng = ctx.rng
    n = 400 if ctx.quick else 15000
    cases = [gen_emit_case(rng) for _ in range(n)]
    batches = [cases[i:i + 40] for i in range(0, len(cases), 40)]
    agg = {"n": 0, "with_collision": 0}
    corr = []
    for r in run_cases(emit_worker, batches, chunk=1):
        if "harness_error" in r:
            ctx.violation({"stage": "harness error", "detail": r}, no_input=True)
            continue
        agg["n"] += r["n"]
        agg["with_collision"] += r["with_collision"]
        corr += r["corr"][:2]
        for it in r["items"]:
            ctx.item(it["cls"], {"stage": "implementation-side property on cdd.compound.openapi.emit.openapi",
                                 "clause": it["cls"].split("/")[-1], "input": it["input"], "detail": it["detail"]})
    # bulk_component_key correspondence
    # the model's key derivation against the expression openapi_bulk itself uses (read from the current source and evaluated here)
    keys_in = NAMES1 + NAMES2 + ["a_tbl_b_tbl", "x", "", "already Title", "mixedCase_tbl", "widget", "wallet_tbl", "job_tbl", "label", "bill", "cart_tbl", "t_tbl",
                                 "tbl", "_tbl", "tbl_tbl", "sub_", "product_tbl"]
    km = call_many("bulk_component_key", keys_in)
    key_expr = bulk_key_expr()
    if key_expr is None:
        kbad = [("<source>", "the component-key expression of openapi_bulk (lambda table: (<key>, json_schema(table))) was not found", None)]
    else:
        kbad = []
        for a, b in zip(keys_in, km):
            try:
                got = eval(key_expr, {"__builtins__": {}}, {"table": {"name": a}})   # noqa: the fragment is a str method chain of the analysed source
            except Exception as e:  # noqa
                got = "raised " + type(e).__name__
            if b != got:
                kbad.append({"table_name": a, "model": b, "source_expression": key_expr, "value_of_the_source_expression": got})
    # bulk runs
    nb = 16 if ctx.quick else 120
    bulk_jobs = [(rng.randrange(1 << 20), gen_bulk_case(rng)) for _ in range(nb)]
    # the key derivation disagrees with the model on some table names: look for the failing document with exactly those models
    for kb in kbad[:4]:
        nm = kb.get("table_name") if isinstance(kb, dict) else None
        if nm and nm.isidentifier():
            j = gen_bulk_case(rng, names=[nm])
            j["models"][0]["crud"] = "CRD"
            bulk_jobs.append((0, j))
    # one single-model job with all three operations, under many hash seeds (the append order of missing routes)
    for _ in range(2 if ctx.quick else 6):
        j = gen_bulk_case(rng)
        j["models"] = j["models"][:1]
        j["models"][0]["crud"] = rng.choice(["CRD", "DRC", "RDC"])
        if j["models"][0]["name"].replace("_tbl", "", 1).title() == j["models"][0]["name"]:
            for sd in range(8 if ctx.quick else 32):
                bulk_jobs.append((sd, j))
    # several models WITHOUT class docstrings in one document (each with its own routes file), single-word names
    for names_ in (["Foo", "Bar"], ["Item", "Order", "Widget"]):
        j = gen_bulk_case(rng, names=names_, nodoc=True)
        j["routes_file_per_model"] = True
        for m_ in j["models"]:
            m_["crud"] = "CRD"
        bulk_jobs.append((0, j))
    bulk = list(run_cases(bulk_worker, bulk_jobs, chunk=1))
    bulk_ok = 0
    for b in bulk:
        if "harness_error" in b or b.get("res") is None:
            ctx.item("C16/bulk/harness", {"stage": "openapi_bulk driver", "detail": b})
            continue
        res, job = b["res"], b["job"]
        multiword = any(m["name"].replace("_tbl", "", 1).title() != m["name"] for m in job["models"])
        tag = "/multiword-name" if multiword else ""
        many = ("/several-models" + ("/one-routes-file-each" if job.get("routes_file_per_model") else "")) if len(job["models"]) > 1 else ""
        if "error" in res:
            ctx.item("C16/bulk/raises%s%s" % (tag, many), {"stage": "gen_routes -> upsert_routes -> openapi_bulk", "input": job,
                                                           "clause": "the generator failed", "detail": res["error"]})
            continue
        bulk_ok += 1
        doc = res["doc"]
        for cls, det in closure_problems(doc):
            ctx.item("C16/bulk/%s%s%s" % (cls, tag, many), {"stage": "gen_routes -> upsert_routes -> openapi_bulk", "input": job,
                                                            "clause": cls, "detail": det})
        exp = {}
        for m in job["models"]:
            if "C" in m["crud"]:
                exp[m["route"]] = ["post"]
            item_ops = sorted((["get"] if "R" in m["crud"] else []) + (["delete"] if "D" in m["crud"] else []))
            if item_ops:
                exp["%s/{%s}" % (m["route"], m["pk"])] = item_ops
        if res.get("expected_paths") is not None:
            # every operation of the document is the one the emitter writes for the model the route was generated for (the name of
            # the path parameter aside: that is the item-path clause below); which operations exist is the "operations" clause
            import re as _re
            norm = lambda pth: _re.sub(r"\{[^}]*\}", "{}", pth)
            emitted = {norm(k): v for k, v in res["expected_paths"].items()}
            diff = []
            for pth, item in (doc.get("paths") or {}).items():
                for k, v in (item or {}).items():
                    e = (emitted.get(norm(pth)) or {}).get(k)
                    if k != "parameters" and e is not None and e != v:
                        diff.append({"path": pth, "key": k, "got": v, "emitter": e})
            if diff:
                ctx.item("C16/bulk/operation-differs-from-the-emitter%s%s" % (tag, many), {
                    "stage": "gen_routes -> upsert_routes -> openapi_bulk", "input": job,
                    "clause": "routes generated for a model, fed back to the OpenAPI generator, describe that same model",
                    "detail": diff[:2]})
        # the item path is keyed by the first column instead of the primary key (models whose primary key is not the first column):
        # re-key the expectation for exactly the models where that happened, and name them by how their primary key is documented
        exp_first, kinds = dict(exp), set()
        for m in job["models"]:
            fc = m.get("first_column", m["pk"])
            good, alt = "%s/{%s}" % (m["route"], m["pk"]), "%s/{%s}" % (m["route"], fc)
            if fc != m["pk"] and good in exp_first and good not in ops(doc) and alt in ops(doc):
                exp_first[alt] = exp_first.pop(good)
                kinds.add("documented" if m.get("pk_documented", True) else "undocumented")
        if ops(doc) != exp and kinds and ops(doc) == exp_first:
            ctx.item("C16/bulk/item-path-keyed-by-first-column-not-primary-key/%s-primary-key%s" % ("+".join(sorted(kinds)), tag),
                     {"stage": "gen_routes -> upsert_routes -> openapi_bulk", "input": job,
                      "clause": "Read->GET on the item, Delete->DELETE on the item",
                      "detail": {"got": ops(doc), "expected": exp}})
        elif ops(doc) != exp:
            ctx.item("C16/bulk/operations%s%s" % (tag, many), {"stage": "gen_routes -> upsert_routes -> openapi_bulk", "input": job,
                                                              "clause": "operations present are exactly those requested",
                                                              "detail": {"got": ops(doc), "expected": exp}})
    # Model/Entities.v (C16_entities_*) against extract_entities on generated texts
    EA = ["Config", "Pet2", "owner_tbl", "ServerError", "```", "`", " ", "\n", "$ref:", "A", "object.", "'200':", "x", "```Oauth2```", "```a_b```", "  "]
    etexts = ["".join(ctx.rng.choice(EA) for _ in range(ctx.rng.randint(0, 9))) for _ in range(400 if ctx.quick else 10000)] + \
        ["$ref: ```Config```\n$ref: ```ServerError```", "```Config```s", "`Config`", "``````"]
    from cdd.compound.openapi.utils.parse_utils import extract_entities as _ee
    ebad = []
    for t_, m_ in zip(etexts, call_many("extract_entities", etexts)):
        try:
            i_ = list(_ee(t_))
        except Exception as e:  # noqa
            i_ = "raises " + type(e).__name__
        if i_ != m_:
            ebad.append({"input": t_, "impl": i_, "model": m_})
    if not ctx.violations:
        if ebad:
            ctx.violation({"stage": "correspondence: Model/Entities.v vs extract_entities", "input": ebad[0]["input"],
                           "impl_output": ebad[0]["impl"], "model_output": ebad[0]["model"], "n_disagreements": len(ebad)}, no_input=True)
        elif corr:
            ctx.violation({"stage": "correspondence: Model/OpenApi.v vs cdd.compound.openapi.emit.openapi", "input": corr[0]["input"],
                           "impl_output": corr[0]["impl"], "model_output": corr[0]["model"]}, no_input=True)
        elif kbad:
            ctx.violation({"stage": "correspondence: bulk_component_key", "detail": kbad[:3]}, no_input=True)
        elif not status["ok"]:
            ctx.violation({"stage": "proof", "theorem": status.get("failing_theorem"),
                           "status": {k: status[k] for k in ("theorems", "forbidden", "build_log") if k in status}}, no_input=True)
    cov = {
        "obligations": status["obligations"], "discharged": status["discharged"],
        "checker_cmd": coqbuild.CHECKER_CMD.replace("<id>", "C16"), "theorems": status["theorems"],
        "trusted_base": GLOBAL_TRUSTED_BASE + [
            "Model/OpenApi.v covers emit.openapi completely and only the component-key derivation of openapi_bulk; route parsing "
            "(bottle), gen_routes/upsert_routes and the FastAPI parser are observed, not modelled"],
        "evaluations": agg["n"] + len(bulk), "distinct_nontrivial": agg["n"] + bulk_ok,
        "rule": "emit.openapi: 1..3 entries (single/multi-word names, repeated names, colliding routes, 9 CRUD spellings, 4 id names, "
                "generated model schemas) compared as JSON with the extracted model and checked for closure; bulk: generated SQLAlchemy "
                "model files -> gen_routes -> upsert_routes -> openapi_bulk in a child process; every case distinct by construction",
        "emit_cases": agg["n"], "emit_cases_with_collisions": agg["with_collision"], "emit_disagreements": len(corr), "entity_texts_compared_with_model": len(etexts),
        "bulk_runs": len(bulk), "bulk_documents_checked": bulk_ok, "traces_validated_against_impl": agg["n"],
        "samples": [cases[0], bulk[0]["job"]["models"] if bulk and "job" in bulk[0] else None],
        "build": {k: status[k] for k in ("build_s", "forbidden")},
    }
    return ctx.finish("proof", cov, assumptions=["closure of openapi_bulk documents is observed only (C16_bulk_key_refuted shows the "
                                                 "literal statement fails for multi-word names)"])


def replay(ctx, payload):
    return run(ctx)
