"""C07 -- doctrans changes only docstrings and annotations, never the program."""
import ast
import contextlib
import difflib
import io
import os
import shutil
import tempfile
import tokenize

from .. import coqbuild
from ..common import GLOBAL_TRUSTED_BASE
from ..model import call_many
from ..pool import guarded, run_cases

THEOREMS = ["C07_cst_untouched", "C07_nothing_replaced_is_identity", "C07_one_node_replaced", "C07_header_reprint_shape",
            "C07_header_reprint_refuted", "C07_return_removed_shape", "C07_return_added", "C07_return_examples", "C07_doc_edit_outside", "C07_new_docstring_node_shape", "C07_doc_edit_examples", "C07_only_headers_and_docstrings_change", "C07_find_cst_first_match", "C07_find_cst_none", "C07_checker_sound",
            "C07_failure_atomic", "C07_order_nonvacuous", "C07_header_untouched_by_reindent", "C07_reindent_refuted", "C07_reindent_example"]
FN_NAMES = ["compute", "render", "fetch", "cache", "route", "handler", "store", "merge"]
CLS_NAMES = ["Alpha", "Beta", "Gamma"]
PARAMS = ["alpha", "beta", "gamma", "delta", "epsilon"]
TYPES = ["int", "str", "float", "bool", "Optional[int]", "List[str]"]
DEFAULTS = {"int": ["5", "-3"], "str": ["'why'", "'x y'", "'hello'", "'(x)'", "'a:b'", "'#no'", "'z'", "'%s'", "'a,b'", "'a -> b'", "'  '", "',  '", "'a   b'", "'    '"], "float": ["0.5", "2.0"], "bool": ["True", "False"],
            "Optional[int]": ["None", "7"], "List[str]": ["None"]}
DESCS = ["the first thing", "how many of them", "what to call it", "a switch", "where to look"]
STYLES = ["rest", "google", "numpydoc"]


# ---------------------------------------------------------------- generator
def gen_params(rng, first):
    names = rng.sample(PARAMS, rng.randint(0 if first else 1, 4))
    ps = []
    seen_default = False
    for n in names:
        t = rng.choice(TYPES)
        d = None
        if seen_default or rng.random() < 0.4:
            d = rng.choice(DEFAULTS[t])
            seen_default = True
        ps.append({"name": n, "type": t, "default": d, "kind": "pos"})
    extra = {"vararg": rng.random() < 0.2, "kwarg": rng.random() < 0.2, "kwonly": None}
    if rng.random() < 0.2:
        t = rng.choice(TYPES)
        extra["kwonly"] = {"name": "flag", "type": t, "default": rng.choice(DEFAULTS[t] + [None])}
    return ps, extra


def doc_lines(style, summary, ps, ret, types_in_doc):
    out = [summary, ""]
    if style == "rest":
        for p in ps:
            out.append(":param %s: %s" % (p["name"], p["desc"]))
            if types_in_doc:
                out.append(":type %s: ```%s```" % (p["name"], p["type"]))
            out.append("")
        if ret:
            out.append(":return: %s" % ret["desc"])
            if types_in_doc:
                out.append(":rtype: ```%s```" % ret["type"])
            out.append("")
        return out[:-1]
    if style == "google":
        if ps:
            out.append("Args:")
            for p in ps:
                out.append(("  %s (%s): %s" % (p["name"], p["type"], p["desc"])) if types_in_doc else ("  %s: %s" % (p["name"], p["desc"])))
            out.append("")
        if ret:
            out.append("Returns:")
            out.append(("  %s: %s" % (ret["type"], ret["desc"])) if types_in_doc else ("  %s" % ret["desc"]))
            out.append("")
        return out[:-1]
    if ps:
        out += ["Parameters", "----------"]
        for p in ps:
            out.append(("%s : %s" % (p["name"], p["type"])) if types_in_doc else p["name"])
            out.append("    " + p["desc"])
        out.append("")
    if ret:
        out += ["Returns", "-------", ret["type"] if types_in_doc else "value", "    " + ret["desc"], ""]
    return out[:-1]


def gen_def(rng, indent, name, first=None, depth=0, allow_nested=True):
    """Returns (lines, features)."""
    pad = " " * indent
    ps, extra = gen_params(rng, first)
    for p in ps:
        p["desc"] = rng.choice(DESCS)
    typed = rng.choice(["ann", "doc", "none"])
    if typed == "ann":
        for p in ps:
            if rng.random() < 0.2:
                p["ann"] = '"Node"'       # a quoted forward reference
    style = rng.choice(STYLES + [None])
    is_async = rng.random() < 0.15
    ret = {"type": rng.choice(TYPES[:4]), "desc": "the outcome"} if rng.random() < 0.6 else None
    feats = set()
    feats.add("async" if is_async else "sync")
    feats.add("doc:%s" % (style or "none"))
    feats.add("typed:%s" % typed)
    lines = []
    # decorators
    r = rng.random()
    if r < 0.12:
        lines.append(pad + "@staticmethod" if first else pad + "@wraps_plain")
        feats.add("decorator:plain")
    elif r < 0.24:
        lines.append(pad + "@lru_cache(maxsize=None)")
        feats.add("decorator:call-with-name" if name in "lru_cache" else "decorator:call")
    elif r < 0.32:
        lines.append(pad + '@register_%s("x", retries=3)' % name)
        feats.add("decorator:call-with-name")
    elif r < 0.35:
        lines.append(pad + '@edge("a->b")')
        feats.add("decorator:call")
    # header
    def render(p, with_ann):
        s = p["name"]
        if with_ann:
            s += ": " + (p.get("ann") or p["type"])
            if p.get("ann"):
                feats.add("quoted-annotation")
        if p["default"] is not None:
            s += (" = " if with_ann else "=") + p["default"]
        return s
    with_ann = typed == "ann"
    # annotations need not be uniform: a positional parameter may lack one, a keyword-only one may be the only annotated parameter
    parts = ([first] if first and not any(l.endswith("@staticmethod") for l in lines) else []) + \
        [render(p, with_ann and rng.random() < 0.9) for p in ps]
    kw_ann = with_ann or (typed != "ann" and rng.random() < 0.3)
    if extra["vararg"]:
        parts.append("*rest")
        feats.add("vararg")
    if extra["kwonly"]:
        if not extra["vararg"]:
            parts.append("*")
        parts.append(render(extra["kwonly"], kw_ann))
        feats.add("kwonly")
    if extra["kwarg"]:
        parts.append("**options")
        feats.add("kwarg")
    if any(p["default"] is not None for p in ps):
        feats.add("defaults")
    rt = ""
    if ret and (with_ann or rng.random() < 0.2):
        if rng.random() < 0.05:
            rt = ' -> "Dict[str:int]"'
            feats.add("string-return-annotation")
        else:
            rt = " -> " + ret["type"]
    kw = "async def" if is_async else "def"
    trailer = ""
    if rng.random() < 0.03:
        trailer = "  # header remark"
        feats.add("comment-after-header")
    if len(parts) > 1 and rng.random() < 0.15:
        feats.add("multiline-header")
        lines.append("%s%s %s(" % (pad, kw, name))
        # PEP 484 per-argument type comments on the un-annotated plain parameters of a multi-line header
        tc = rng.random() < 0.4
        for p in parts:
            plain = tc and ":" not in p and not p.startswith("*") and p not in ("self", "cls")
            if plain:
                feats.add("arg-type-comments")
            lines.append("%s    %s,%s" % (pad, p, "  # type: int" if plain else ""))
        lines.append("%s)%s:%s" % (pad, rt, trailer))
    else:
        lines.append("%s%s %s(%s)%s:%s" % (pad, kw, name, ", ".join(parts), rt, trailer))
    body = pad + "    "
    if style:
        dl = doc_lines(style, rng.choice(["Do the thing", "Work out the answer for the caller"]), ps, ret, typed == "doc")
        closer = '"""'
        if rng.random() < 0.02:
            closer += "  # after the docstring"
            feats.add("comment-after-docstring")
        lines.append(body + '"""')
        lines += [(body + l) if l else "" for l in dl]
        lines.append(body + closer)
    # body statements
    n = rng.randint(1, 4)
    for _ in range(n):
        k = rng.random()
        if k < 0.25:
            lines.append(body + "# keep this remark %d" % rng.randint(0, 99))
            feats.add("body-comment")
        elif k < 0.45 and ps:
            lines.append(body + "total = %s" % ps[0]["name"])
        elif k < 0.55:
            lines.append(body + "counter: int = %d" % rng.randint(0, 9))
            feats.add("body-annassign")
        elif k < 0.65:
            lines.append(body + "print(%r)    # trailing remark" % rng.choice(DESCS))
            feats.add("body-comment")
        elif k < 0.72:
            lines.append("")
        elif k < 0.80 and allow_nested and depth < 1:
            sub, sf = gen_def(rng, indent + 4, rng.choice(["helper", "inner"]), None, depth + 1)
            if rng.random() < 0.15 and not any(l.strip().startswith("@") for l in sub):
                hdr = next(l for l in sub if l.strip().startswith(("def ", "async def ")))
                lines += [body + 'TEMPLATE = """', hdr.strip() if False else hdr, body + "    return 0", body + '"""']
                feats.add("triple-quoted-fake-def")
            lines += sub
            feats.add("nested")
            feats |= {"nested/" + f for f in sf}
        else:
            lines.append(body + "value = %d" % rng.randint(0, 99))
    lines.append(body + ("return %s" % (ps[0]["name"] if ps else "None")))
    return lines, feats


def gen_module(rng):
    lines = []
    if rng.random() < 0.5:
        lines += ['"""Module docstring"""', ""]
    lines += ["from functools import lru_cache", "from typing import List, Optional", ""]
    defs = []
    if rng.random() < 0.4:
        lines += ["# a top-level remark", "LIMIT: int = 5", "NAME = 'x'  # type: str", ""]
    names = rng.sample(FN_NAMES, 3)
    for _ in range(rng.randint(1, 3)):
        if rng.random() < 0.35:
            cname = rng.choice(CLS_NAMES)
            lines.append("class %s(%s):" % (cname, rng.choice(["object", "Base, metaclass=Meta"])))
            if rng.random() < 0.6:
                lines += ['    """', "    A thing", '    """', ""]
            if rng.random() < 0.5:
                lines += ["    width: int = 5", "    label = 'x'", ""]
            for _m in range(rng.randint(1, 2)):
                nm = names[_m]
                sub, f = gen_def(rng, 4, nm, "self")
                lines += sub + [""]
                defs.append(("method", cname + "." + nm, f))
            lines.append("")
        else:
            nm = names[2 - (_ % 3)]
            if any(d[1] == nm for d in defs):
                continue
            sub, f = gen_def(rng, 0, nm, None)
            lines += sub + ["", ""]
            defs.append(("function", nm, f))
        if rng.random() < 0.3:
            lines += ["# between definitions", "SETTING = %d" % rng.randint(0, 9), ""]
        if rng.random() < 0.15:
            # literal TAB characters outside indentation: inside a string constant, and before a trailing comment
            lines += ['SEP = "\t"', "COLUMNS = 'name\tvalue'", "WIDTH = 8\t# aligned with a tab", ""]
    return "\n".join(lines).rstrip("\n") + "\n", defs


def gen_case(rng):
    for _ in range(50):
        src, defs = gen_module(rng)
        try:
            ast.parse(src)
        except SyntaxError:
            continue
        if defs:
            break
    return {"src": src, "fmt": rng.choice(STYLES), "type_annotations": rng.random() < 0.5, "no_word_wrap": rng.choice([None, True])}


# ---------------------------------------------------------------- observation
def is_doc(n):
    return isinstance(n, ast.Expr) and isinstance(n.value, ast.Constant) and isinstance(n.value.value, str)


class Erase(ast.NodeTransformer):
    def _doc(self, node):
        self.generic_visit(node)
        if node.body and is_doc(node.body[0]):
            node.body = node.body[1:]
        return node

    visit_Module = visit_ClassDef = _doc

    def _fn(self, node):
        node.returns = None
        node.type_comment = None
        for a in node.args.posonlyargs + node.args.args + node.args.kwonlyargs + [node.args.vararg, node.args.kwarg]:
            if a is not None:
                a.annotation = None
                a.type_comment = None
        return self._doc(node)

    visit_FunctionDef = visit_AsyncFunctionDef = _fn

    def visit_AnnAssign(self, node):
        self.generic_visit(node)
        if node.value is None:
            return ast.copy_location(ast.Expr(value=node.target), node)
        return ast.copy_location(ast.Assign(targets=[node.target], value=node.value, type_comment=None), node)

    def visit_Assign(self, node):
        self.generic_visit(node)
        node.type_comment = None
        return node


def erased(src):
    return Erase().visit(ast.parse(src))


def dump(n):
    return ast.dump(n, annotate_fields=True, include_attributes=False)


def def_index(tree, prefix=""):
    """qualified name -> def node, in document order (duplicates get #k)."""
    out = {}
    def walk(body, pre):
        for n in body:
            if isinstance(n, (ast.FunctionDef, ast.AsyncFunctionDef, ast.ClassDef)):
                q = pre + n.name
                k = q
                i = 1
                while k in out:
                    i += 1
                    k = "%s#%d" % (q, i)
                out[k] = n
                walk(n.body, q + ".")
            else:
                for f in ("body", "orelse", "finalbody"):
                    if isinstance(getattr(n, f, None), list):
                        walk(getattr(n, f), pre)
    walk(tree.body, prefix)
    return out


def shallow(n):
    """dump of a def without nested defs' own contents (so a difference is blamed on the innermost def)."""
    import copy
    m = copy.copy(n)
    m.body = [ast.Expr(value=ast.Constant(value="<def %s>" % b.name)) if isinstance(b, (ast.FunctionDef, ast.AsyncFunctionDef, ast.ClassDef)) else b
              for b in n.body]
    return m


def def_features(node, src_lines):
    """observable features of an input def (from the source itself, not from the generator)."""
    f = set()
    if isinstance(node, ast.ClassDef):
        return {"class"}
    f.add("async" if isinstance(node, ast.AsyncFunctionDef) else "sync")
    a = node.args
    if a.defaults or any(d is not None for d in a.kw_defaults):
        f.add("defaults")
    if a.vararg:
        f.add("vararg")
    if a.kwonlyargs:
        f.add("kwonly")
    if a.kwarg:
        f.add("kwarg")
    for d in node.decorator_list:
        txt = ast.unparse(d)
        if isinstance(d, ast.Call):
            f.add("decorator:call-with-name" if node.name in txt.split("(")[0] else "decorator:call")
        else:
            f.add("decorator:plain")
    first = node.body[0]
    # the header proper: from the def keyword to the line of the colon that closes the signature
    depth, hdr_end = 0, node.lineno
    header_comment, arrows_in_strings, colon_seen, inside_comment = False, 0, False, False
    try:
        toks = tokenize.generate_tokens(io.StringIO("\n".join(src_lines[node.lineno - 1:first.lineno]) + "\n").readline)
        for t in toks:
            if colon_seen:
                # the rest of the colon's line: a trailing comment belongs to the header line
                if t.type == tokenize.COMMENT and node.lineno + t.start[0] - 1 == hdr_end:
                    header_comment = True
                if t.type in (tokenize.NEWLINE, tokenize.NL):
                    break
                continue
            if t.type == tokenize.COMMENT:
                inside_comment = True      # a comment between the parentheses of a multi-line header (e.g. a per-argument type comment)
            elif t.type == tokenize.STRING and "->" in t.string:
                arrows_in_strings += 1
            elif t.type == tokenize.OP and t.string in "([{":
                depth += 1
            elif t.type == tokenize.OP and t.string in ")]}":
                depth -= 1
            elif t.type == tokenize.OP and t.string == ":" and depth == 0:
                hdr_end = node.lineno + t.start[0] - 1
                colon_seen = True
    except (tokenize.TokenError, IndentationError, SyntaxError):
        hdr_end = max(node.lineno, first.lineno - 1)
    if hdr_end - node.lineno >= 1:
        f.add("multiline-header")
    if header_comment:
        f.add("comment-after-header")
    if inside_comment:
        f.add("comment-inside-header")
    if arrows_in_strings:
        # maybe_replace_function_args looks for the LAST "->" before the final colon; once the return annotation is gone (or was
        # never there) that is the one inside the string default: the re-printed header is cut there
        f.add("arrow-in-default")
    if any("->" in ast.unparse(d) for d in node.decorator_list):
        # same mechanism, but only when the argument list is re-printed: a def with parameters of its own
        own = [x.arg for x in a.posonlyargs + a.args + a.kwonlyargs if x.arg not in ("self", "cls")]
        f.add("arrow-in-decorator+params" if own or a.vararg or a.kwarg else "arrow-in-decorator")
    if is_doc(first):
        if "#" in src_lines[first.end_lineno - 1].split('"""')[-1]:
            f.add("comment-after-docstring")
    else:
        f.add("no-docstring")
    if isinstance(node.returns, ast.Constant):
        f.add("string-return-annotation")
    if node.col_offset:
        f.add("indented")
    return f


KEEP = ("arrow-in-default", "arrow-in-decorator", "arrow-in-decorator+params", "async", "defaults", "vararg", "kwonly", "kwarg", "decorator:call-with-name", "decorator:call", "decorator:plain",
        "multiline-header", "comment-after-header", "comment-after-docstring", "string-return-annotation", "class", "no-docstring")


def fkey(fs):
    return "+".join(sorted(x for x in fs if x in KEEP)) or "plain"


def arg_diff(a, b):
    """what changed between two erased arguments nodes"""
    out = []
    if [x.arg for x in a.args] != [x.arg for x in b.args] or [x.arg for x in a.posonlyargs] != [x.arg for x in b.posonlyargs]:
        out.append("positional-names")
    if [dump(d) for d in a.defaults] != [dump(d) for d in b.defaults]:
        out.append("defaults")
    if (a.vararg and a.vararg.arg) != (b.vararg and b.vararg.arg):
        out.append("vararg")
    if [x.arg for x in a.kwonlyargs] != [x.arg for x in b.kwonlyargs] or [d and dump(d) for d in a.kw_defaults] != [d and dump(d) for d in b.kw_defaults]:
        out.append("kwonly")
    if (a.kwarg and a.kwarg.arg) != (b.kwarg and b.kwarg.arg):
        out.append("kwarg")
    return out


def sig(n):
    return "def %s(%s)" % (n.name, ast.unparse(n.args))[:160]


def reprinted(a, b):
    """b is what maybe_replace_function_args' re-print makes of a: the positional names and nothing else"""
    return ([x.arg for x in b.args] == [x.arg for x in a.args] and not b.defaults and not b.vararg and not b.kwonlyargs and not b.kwarg
            and not b.posonlyargs)


def comments(src):
    out = []
    for t in tokenize.generate_tokens(io.StringIO(src).readline):
        if t.type == tokenize.COMMENT and not t.string.replace(" ", "").startswith("#type:"):
            out.append(t.string)
    return out


def line_roles(src):
    """line number (1-based) -> 'header' | 'docstring' | 'annotated' | 'other' for the input."""
    tree = ast.parse(src)
    n = src.count("\n") + 1
    roles = ["other"] * (n + 2)
    owner = [None] * (n + 2)
    # the header of a def / class ends on the line of the colon that closes its signature
    hdr_end, depth, open_at = {}, 0, None
    for t in tokenize.generate_tokens(io.StringIO(src).readline):
        if t.type == tokenize.NAME and t.string in ("def", "class") and depth == 0 and open_at is None:
            open_at = t.start[0]
        elif t.type == tokenize.OP and t.string in "([{":
            depth += 1
        elif t.type == tokenize.OP and t.string in ")]}":
            depth -= 1
        elif t.type == tokenize.OP and t.string == ":" and depth == 0 and open_at is not None:
            hdr_end[open_at] = t.start[0]
            open_at = None
    for node in ast.walk(tree):
        if isinstance(node, (ast.FunctionDef, ast.AsyncFunctionDef, ast.ClassDef)):
            start = min([node.lineno] + [d.lineno for d in node.decorator_list])
            for i in range(start, hdr_end.get(node.lineno, node.lineno) + 1):
                roles[i] = "header"
                owner[i] = node
        if isinstance(node, (ast.FunctionDef, ast.AsyncFunctionDef, ast.ClassDef, ast.Module)) and node.body and is_doc(node.body[0]):
            d = node.body[0]
            for i in range(d.lineno, d.end_lineno + 1):
                roles[i] = "docstring"
                owner[i] = node if not isinstance(node, ast.Module) else None
    for node in ast.walk(tree):
        if isinstance(node, ast.AnnAssign) or (isinstance(node, ast.Assign)):
            for i in range(node.lineno, node.end_lineno + 1):
                if roles[i] == "other":
                    roles[i] = "annotatable"
    return roles, owner


def run_case(c):
    from cdd.compound.doctrans import doctrans

    src = c["src"]
    d = tempfile.mkdtemp(prefix="c07_")
    path = os.path.join(d, "mod.py")
    res = {"problems": [], "raised": None, "changed": False, "headers": []}
    try:
        with open(path, "wt") as f:
            f.write(src)
        before = open(path, "rb").read()
        try:
            with contextlib.redirect_stdout(io.StringIO()), contextlib.redirect_stderr(io.StringIO()):
                doctrans(filename=path, docstring_format=c["fmt"], type_annotations=c["type_annotations"], no_word_wrap=c["no_word_wrap"])
        except Exception as e:  # noqa
            res["raised"] = "%s: %s" % (type(e).__name__, str(e)[:120])
        after_b = open(path, "rb").read()
    finally:
        shutil.rmtree(d, ignore_errors=True)
    if res["raised"] is not None:
        if after_b != before:
            res["problems"].append(("atomicity/file-changed-after-%s" % res["raised"].split(":")[0],
                                    {"bytes_before": len(before), "bytes_after": len(after_b), "error": res["raised"]}))
        return res
    out = after_b.decode()
    res["changed"] = out != src
    res["out"] = out
    in_lines, out_lines = src.split("\n"), out.split("\n")
    in_tree = ast.parse(src)
    idx_in = def_index(in_tree)
    feats = {q: def_features(n, in_lines) for q, n in idx_in.items()}
    roles, owner = line_roles(src)
    # a comment on a def header line or after a closing docstring derails the CST scanner for the rest of the file (known finding):
    # every problem of such a module is attributed to that trigger
    allf = set().union(*feats.values()) if feats else set()
    taint = next((t for t in ("comment-after-docstring", "comment-after-header", "arrow-in-default", "arrow-in-decorator+params") if t in allf), None)

    def blame(lo, hi):
        """features of the input defs owning / enclosing input lines lo..hi (1-based, inclusive)"""
        best = None
        for q, n in idx_in.items():
            start = min([n.lineno] + [dd.lineno for dd in n.decorator_list])
            if start <= hi and n.end_lineno >= lo:
                if best is None or (n.end_lineno - start) <= (idx_in[best].end_lineno - idx_in[best].lineno + 1):
                    best = q
        return best

    # changed line regions
    sm = difflib.SequenceMatcher(a=in_lines, b=out_lines, autojunk=False)
    regions = [(tag, i1, i2, j1, j2) for tag, i1, i2, j1, j2 in sm.get_opcodes() if tag != "equal"]
    # 1. valid python
    try:
        out_tree = ast.parse(out)
    except SyntaxError as e:
        qs = sorted({blame(i1 + 1, max(i1 + 1, i2)) or "<module>" for _t, i1, i2, _j1, _j2 in regions})
        key = "|".join(sorted({fkey(feats[q]) if q in feats else "module-level" for q in qs}))
        res["problems"].append(("invalid-python/" + key, {"error": str(e)[:100], "blamed": qs}))
        return finish(res, taint)
    # 2. program unchanged once docstrings / annotations are erased
    e_in, e_out = erased(src), erased(out)
    if dump(e_in) != dump(e_out):
        di, do = def_index(e_in), def_index(e_out)
        raw_in, raw_out = def_index(ast.parse(src)), def_index(ast.parse(out))
        found = False
        for q in di:
            if q not in do:
                res["problems"].append(("program/definition-lost/" + fkey(feats.get(q, set())), {"def": q}))
                found = True
                continue
            a, b = di[q], do[q]
            if isinstance(a, ast.ClassDef) or isinstance(b, ast.ClassDef):
                if dump(shallow(a)) != dump(shallow(b)):
                    res["problems"].append(("program/class-changed/" + fkey(feats.get(q, set())), {"def": q}))
                    found = True
                continue
            kinds = []
            if type(a) is not type(b):
                kinds.append("async-ness")
            kinds += arg_diff(a.args, b.args)
            if [dump(x) for x in a.decorator_list] != [dump(x) for x in b.decorator_list]:
                kinds.append("decorators")
            if [dump(x) for x in shallow(a).body] != [dump(x) for x in shallow(b).body]:
                kinds.append("body")
            if kinds and set(kinds) <= {"defaults", "vararg", "kwonly", "kwarg"} and reprinted(a.args, b.args):
                found = True
                # why was the header re-printed?  On the pinned tree only because an annotation of a positional parameter was added
                # or removed; a re-print with the positional annotations unchanged is a different (new) behaviour
                ra, rb = raw_in.get(q), raw_out.get(q)
                same_pos = ra is not None and rb is not None and \
                    [(x.arg, ast.dump(x.annotation) if x.annotation else None) for x in ra.args.args] == \
                    [(x.arg, ast.dump(x.annotation) if x.annotation else None) for x in rb.args.args]
                why = "/positional-annotations-unchanged" if same_pos else ""
                if not same_pos and ra is not None and rb is not None and \
                        [(x.arg, x.annotation is None) for x in ra.args.args] == [(x.arg, x.annotation is None) for x in rb.args.args]:
                    why = "/positional-annotation-rewritten"     # none added, none removed: an annotation that was there was changed
                if why == "/positional-annotations-unchanged" and ra is not None and ra.body:
                    # reindent_block_with_pass_body deletes the FIRST run of four blanks anywhere in the header (C07_reindent_refuted): a
                    # header that has one (a string default such as '    ') then parses differently and is re-printed -- on the pinned tree too
                    hdr = "\n".join(l.lstrip() for l in src.split("\n")[ra.lineno - 1: max(ra.lineno, ra.body[0].lineno - 1)])
                    if "    " in hdr:
                        why += "/four-blanks-in-header"
                for k in kinds:
                    res["problems"].append(("program/header-reprint-drops-" + k + why, {"def": q, "before": sig(a),
                                                                                  "after": sig(b)}))
            elif kinds:
                found = True
                res["problems"].append(("program/%s/%s" % ("+".join(kinds), fkey(feats.get(q, set()))),
                                        {"def": q, "before": sig(a), "after": sig(b)}))
        for q in do:
            if q not in di:
                res["problems"].append(("program/definition-added", {"def": q}))
                found = True
        if not found:
            res["problems"].append(("program/module-level-statements", {}))
    # 3. comments all present, in order
    ci, co = comments(src), comments(out)
    if ci != co:
        lost = [x for x in ci if x not in co]
        added = [x for x in co if x not in ci]
        kind = "lost" if lost else ("added" if added else "reordered")
        where = set()
        for i, l in enumerate(in_lines):
            if any(x in l for x in lost):
                q = blame(i + 1, i + 1)
                where.add(fkey(feats[q]) if q else "module-level")
        res["problems"].append(("comments/%s/%s" % (kind, "|".join(sorted(where)) or "-"), {"lost": lost[:3], "added": added[:3]}))
    # 4. lines that are neither a definition header nor a docstring (nor an assignment, whose annotation may move) are
    #    byte-identical and in the same order; alignment-free: the two sequences of such non-blank lines must be equal
    roles_out, _o = line_roles(out)
    seq_in = [(i, l) for i, l in enumerate(in_lines) if roles[i + 1] == "other" and l.strip()]
    seq_out = [l for j, l in enumerate(out_lines) if roles_out[j + 1] == "other" and l.strip()]
    if [l for _i, l in seq_in] != seq_out:
        k = next((k for k, ((_i, l), m) in enumerate(zip(seq_in, seq_out)) if l != m), min(len(seq_in), len(seq_out)))
        at = seq_in[k][0] if k < len(seq_in) else len(in_lines) - 1
        q = blame(at + 1, at + 1)
        kind = "lost" if len(seq_out) < len(seq_in) else ("added" if len(seq_out) > len(seq_in) else "changed")
        res["problems"].append(("lines/%s/%s" % (kind, fkey(feats[q]) if q else "module-level"),
                                {"first_difference_input": seq_in[k][1] if k < len(seq_in) else None,
                                 "first_difference_output": seq_out[k] if k < len(seq_out) else None}))
    return finish(res, taint)


def finish(res, taint):
    if taint:
        res["problems"] = [("scanner-derailed-by-%s" % taint, dict(det, clause=cls)) for cls, det in res["problems"]][:1]
    return res


def ast2cst_name(node_type):
    from cdd.shared.ast_cst_utils import ast2cst
    k = ast2cst.get(node_type, type(None)).__name__
    return None if k == "NoneType" else k


def header_cases(c):
    """(value, new_args) pairs obtained by calling maybe_replace_function_args directly on the headers of the module."""
    from cdd.shared.ast_cst_utils import maybe_replace_function_args
    from cdd.shared.cst import cst_parse

    out = []
    src = c["src"]
    try:
        cst = list(cst_parse(src))
    except Exception:  # noqa
        return out
    tree = ast.parse(src)
    fns = [n for n in ast.walk(tree) if isinstance(n, (ast.FunctionDef, ast.AsyncFunctionDef))]
    # find_cst_at_ast on every definition of the module
    from cdd.shared.ast_cst_utils import ast2cst, find_cst_at_ast
    enc = [[n.line_no_start, n.line_no_end, type(n).__name__, getattr(n, "name", None)] for n in cst]
    for d in [n for n in ast.walk(tree) if isinstance(n, (ast.FunctionDef, ast.AsyncFunctionDef, ast.ClassDef))][:12]:
        kind = ast2cst.get(type(d).__name__, type(None)).__name__
        if kind == "NoneType":
            continue
        with contextlib.redirect_stderr(io.StringIO()):
            idx, found = find_cst_at_ast(cst, d)
        out.append({"find": True, "cst": enc, "lineno": d.lineno, "kind": kind, "name": d.name, "impl": idx if found is not None else None})
    # doctransify_cst as a whole, with new docstrings and untouched signatures (so the header edits are no-ops)
    import copy
    try:
        from cdd.compound.doctrans_utils import doctransify_cst
        from cdd.shared.ast_utils import annotate_ancestry, get_doc_str as _gds
        t2 = copy.deepcopy(tree)
        k = 0
        for d in ast.walk(t2):
            if isinstance(d, (ast.FunctionDef, ast.ClassDef)):
                k += 1
                if k % 3 == 0 and d.body and is_doc(d.body[0]):
                    d.body = d.body[1:] or [ast.Pass()]
                elif k % 3 == 1:
                    nd = ast.Expr(value=ast.Constant(value="\nRewritten %d\n\n:param q: the q\n" % k))
                    d.body = ([nd] + d.body[1:]) if (d.body and is_doc(d.body[0])) else ([nd] + d.body)
        annotate_ancestry(t2)
        lst = list(cst)
        with contextlib.redirect_stdout(io.StringIO()), contextlib.redirect_stderr(io.StringIO()):
            doctransify_cst(lst, t2)
        defs = []
        for d in ast.walk(t2):
            if hasattr(d, "_location") and isinstance(d, (ast.FunctionDef, ast.AsyncFunctionDef, ast.ClassDef)):
                kind = ast2cst_name(type(d).__name__)
                if kind is not None:
                    defs.append([d.lineno, kind, d.name, _gds(d) or ""])
        nodes = [[type(n).__name__, n.value, bool(getattr(n, "is_docstr", False)), n.line_no_start, n.line_no_end, getattr(n, "name", None)] for n in cst]
        out.append({"flow": True, "nodes": nodes, "defs": defs, "impl": [x.value for x in lst]})
    except Exception as e:  # noqa
        out.append({"flow_error": type(e).__name__ + ": " + str(e)[:100]})
    # the docstring edit on every def / class header of the module
    from cdd.shared.ast_cst_utils import maybe_replace_doc_str_in_function_or_class
    from cdd.shared.ast_utils import get_doc_str
    defs_by_name = {}
    for d in ast.walk(tree):
        if isinstance(d, (ast.FunctionDef, ast.AsyncFunctionDef, ast.ClassDef)):
            defs_by_name.setdefault(d.name, d)
    for i, node in enumerate(cst):
        if type(node).__name__ not in ("FunctionDefinitionStart", "ClassDefinitionStart") or getattr(node, "name", None) not in defs_by_name:
            continue
        d = copy.deepcopy(defs_by_name[node.name])
        choice = (i + len(src)) % 3
        if choice == 0:
            if d.body and is_doc(d.body[0]):
                d.body = d.body[1:] or [ast.Pass()]
        elif choice == 1:
            newdoc = ast.Expr(value=ast.Constant(value="\nNew summary line\n\n:param q: the q\n:type q: ```int```\n"))
            d.body = ([newdoc] + d.body[1:]) if (d.body and is_doc(d.body[0])) else ([newdoc] + d.body)
        lst = list(cst)
        after = lst[i + 1] if i + 1 < len(lst) else None
        try:
            new_doc = get_doc_str(d) or ""
            with contextlib.redirect_stdout(io.StringIO()):
                maybe_replace_doc_str_in_function_or_class(d, i, lst)
            got = [x.value for x in lst]
        except Exception as e:  # noqa
            continue
        out.append({"docedit": True, "new_doc": new_doc, "idx": i, "nodes": [x.value for x in cst],
                    "after_value": after.value if after is not None else "",
                    "after_is_docstr": bool(after is not None and type(after).__name__ == "TripleQuoted" and getattr(after, "is_docstr", False)),
                    "impl": got})
    for i, node in enumerate(cst):
        if type(node).__name__ not in ("FunctionDefinitionStart",):
            continue
        cands = [f for f in fns if f.name == getattr(node, "name", None)]
        if not cands:
            continue
        cur = cands[0]
        import copy
        new = copy.deepcopy(cur)
        flip = c["type_annotations"]
        for k, a in enumerate(new.args.args):
            if a.arg in ("self", "cls"):
                continue
            a.annotation = ast.Name(id=TYPES[k % 4], ctx=ast.Load()) if flip else None
        lst = list(cst)
        value = node.value
        try:
            with contextlib.redirect_stdout(io.StringIO()):
                maybe_replace_function_args(new_node=new, cur_ast_node=cur, cst_idx=i, cst_list=lst)
            got = lst[i].value
        except Exception as e:  # noqa
            got = "!" + type(e).__name__
        if got == value and ast.dump(new.args) == ast.dump(cur.args):
            continue
        out.append({"value": value, "new_args": [[a.arg, ast.unparse(a.annotation) if a.annotation else None] for a in new.args.args],
                    "impl": got, "changed": got != value})
        # the return-type edit on the same header
        from cdd.shared.ast_cst_utils import maybe_replace_function_return_type
        new2 = copy.deepcopy(cur)
        cur_rt = ast.unparse(cur.returns) if cur.returns is not None else None
        new_rt = None if (cur_rt is not None and (i + len(src)) % 2 == 0) else ("bool" if cur_rt != "bool" else "Dict[str, int]")
        new2.returns = ast.parse(new_rt, mode="eval").body if new_rt is not None else None
        lst2 = list(cst)
        try:
            with contextlib.redirect_stdout(io.StringIO()):
                maybe_replace_function_return_type(new_node=new2, cur_ast_node=cur, cst_idx=i, cst_list=lst2)
            got2 = lst2[i].value
        except Exception as e:  # noqa
            got2 = "!" + type(e).__name__
        out.append({"retype": True, "value": value, "cur": cur_rt, "new": new_rt, "impl": got2})
    return out


def worker(batch):
    out = {"n": 0, "ran": 0, "raised": 0, "changed": 0, "items": [], "corr": [], "headers": 0, "raised_kinds": {}}
    hdrs = []
    for c in batch:
        out["n"] += 1
        st, r = guarded(run_case, c, 60)
        if st != "ok":
            out["items"].append(("C07/harness/" + st, {"detail": r}, c))
            continue
        if r["raised"] is not None:
            out["raised"] += 1
            k = r["raised"].split(":")[0]
            out["raised_kinds"][k] = out["raised_kinds"].get(k, 0) + 1
        else:
            out["ran"] += 1
            out["changed"] += bool(r["changed"])
        for cls, det in r["problems"]:
            out["items"].append(("C07/" + cls, det, c))
        st, hs = guarded(header_cases, c, 30)
        if st == "ok":
            hdrs += [(c, h) for h in hs]
        elif st == "raise":
            out["items"].append(("C07/harness/header-cases-raise", {"detail": hs}, c))
    flows = [(c, h) for c, h in hdrs if h.get("flow")]
    hdrs = [(c, h) for c, h in hdrs if not h.get("flow") and not h.get("flow_error")]
    if flows:
        ms = call_many("doctransify_docs", [[h["nodes"], h["defs"]] for _c, h in flows])
        for (c, h), m in zip(flows, ms):
            out["headers"] += 1
            # signatures were not changed, but the implementation still re-prints a header when its own re-parse of the header text
            # differs from the AST (e.g. string annotations): compare everything except header nodes
            hdr_idx = {i for i, n in enumerate(h["nodes"]) if n[0] in ("FunctionDefinitionStart", "ClassDefinitionStart")}
            strip = lambda texts, kinds_from: texts
            if len(m) != len(h["impl"]) or any(a != b for a, b in zip(m, h["impl"]) if not any(a == n[1] or b == n[1] for n in h["nodes"] if n[0] in ("FunctionDefinitionStart", "ClassDefinitionStart"))):
                kk = next((k for k, (a, b) in enumerate(zip(m, h["impl"])) if a != b), min(len(m), len(h["impl"])))
                out["corr"].append({"stage": "doctransify_cst (docstrings only)", "first_difference_at": kk, "len_impl": len(h["impl"]), "len_model": len(m),
                                    "impl_node": h["impl"][kk] if kk < len(h["impl"]) else None, "model_node": m[kk] if kk < len(m) else None})
    des = [(c, h) for c, h in hdrs if h.get("docedit")]
    hdrs = [(c, h) for c, h in hdrs if not h.get("docedit")]
    if des:
        eds = call_many("doc_edit", [[h["new_doc"], h["after_value"], h["after_is_docstr"]] for _c, h in des])
        outs = call_many("apply_edit", [[e, h["idx"], h["nodes"]] for e, (_c, h) in zip(eds, des)])
        for (c, h), e, m in zip(des, eds, outs):
            out["headers"] += 1
            if m != h["impl"]:
                k = next((k for k, (a, b) in enumerate(zip(m, h["impl"])) if a != b), min(len(m), len(h["impl"])))
                out["corr"].append({"stage": "maybe_replace_doc_str_in_function_or_class", "edit": e[0], "new_doc": h["new_doc"], "after_value": h["after_value"],
                                    "impl_node": h["impl"][k] if k < len(h["impl"]) else None, "model_node": m[k] if k < len(m) else None,
                                    "len_impl": len(h["impl"]), "len_model": len(m)})
    finds = [(c, h) for c, h in hdrs if h.get("find")]
    hdrs = [(c, h) for c, h in hdrs if not h.get("find")]
    if finds:
        ms = call_many("find_cst", [[h["cst"], h["lineno"], h["kind"], h["name"]] for _c, h in finds])
        for (c, h), m in zip(finds, ms):
            out["headers"] += 1
            if m != h["impl"]:
                out["corr"].append({"stage": "find_cst_at_ast", "lineno": h["lineno"], "kind": h["kind"], "name": h["name"], "impl": h["impl"], "model": m,
                                    "cst_windows": [x for x in h["cst"] if x[3] == h["name"]]})
    rets = [(c, h) for c, h in hdrs if h.get("retype")]
    hdrs = [(c, h) for c, h in hdrs if not h.get("retype")]
    if rets:
        ms = call_many("retype_header", [[h["value"], h["cur"], h["new"]] for _c, h in rets])
        for (c, h), m in zip(rets, ms):
            out["headers"] += 1
            if h["impl"].startswith("!"):
                continue
            want = h["value"] if m is None else m
            if want != h["impl"]:
                out["corr"].append({"stage": "retype_header", "value": h["value"], "cur": h["cur"], "new": h["new"], "impl": h["impl"], "model": m})
    if hdrs:
        ms = call_many("header_reprint", [[h["value"], h["new_args"]] for _c, h in hdrs])
        for (c, h), m in zip(hdrs, ms):
            out["headers"] += 1
            if h["impl"].startswith("!"):
                continue
            # the implementation leaves the node alone when the printed argument lists agree; the model is the re-print itself
            if h["changed"] and m != h["impl"]:
                out["corr"].append({"value": h["value"], "new_args": h["new_args"], "impl": h["impl"], "model": m})
    return out


CORPUS = [
    # C07_header_reprint_refuted's witness, end to end
    {"src": 'def f(a=1, *rest, flag=False, **kw):\n    """\n    Do it\n\n    :param a: first\n    :type a: ```int```\n    """\n    return a\n',
     "fmt": "rest", "type_annotations": True, "no_word_wrap": None},
    # raising inputs (failure atomicity must be exercised)
    {"src": 'def outer(a: int) -> int:\n    """\n    Do it\n\n    :param a: first\n\n    :return: it\n    """\n    TEMPLATE = """\n    def helper(q):\n        return q\n    """\n\n'
            '    def helper(q: int) -> int:\n        """\n        inner\n\n        :param q: first\n\n        :return: it\n        """\n        return q\n\n    return helper(a)\n',
     "fmt": "numpydoc", "type_annotations": False, "no_word_wrap": None},
    {"src": 'def g(a: int) -> "Dict[str:int]":\n    """\n    Do it\n\n    :param a: first\n\n    :return: it\n    """\n    return {}\n',
     "fmt": "google", "type_annotations": False, "no_word_wrap": None},
    {"src": 'from functools import lru_cache\n\n\nclass Store(object):\n    """\n    A store\n    """\n\n    @lru_cache(maxsize=None)\n    def cache(self, key: str) -> int:\n'
            '        """\n        Memoised lookup\n\n        :param key: the key\n\n        :return: the value\n        """\n        return len(key)\n',
     "fmt": "rest", "type_annotations": False, "no_word_wrap": None},
    # fully annotated headers with quoted forward references and every kind of parameter, annotations asked for: nothing to rewrite
    {"src": 'class Node(object):\n    """\n    A node\n    """\n\n    def attach(self, child: "Node", index: int = -1, *, notify: bool = True, **meta) -> "Node":\n'
            '        """\n        Attach it\n\n        :param child: the child\n\n        :param index: where\n\n        :param notify: tell\n\n        :return: the child\n        """\n'
            '        return child\n\n\ndef walk(root: "Node", depth: int = 0, *visitors, leaves_only: bool = False) -> list:\n'
            '    """\n    Walk the tree\n\n    :param root: where to start\n\n    :param depth: starting depth\n\n    :param leaves_only: skip inner nodes\n\n    :return: the nodes\n    """\n'
            '    # depth first\n    return [root]\n',
     "fmt": "rest", "type_annotations": True, "no_word_wrap": None},
    # a docstring whose doctest opens and closes a triple-single-quoted string: a line of a triple-double-quoted docstring that ENDS in the other triple quote
    {"src": '"""Greeting helpers"""\n\nimport os\n\nPREFIX = "hello "\n\n\ndef render(name):\n    """\n    Render the greeting, e.g.:\n\n    >>> text = \'\'\'\n    ... world\n    ... \'\'\'\n    >>> render(text)\n\n    :param name: who to greet\n    :type name: ```str```\n\n    :return: the greeting\n    :rtype: ```str```\n    """\n    # build it\n    return PREFIX + name\n\n\ndef shout(name, times=2):\n    """\n    Shout the greeting\n\n    :param name: who to greet\n    :type name: ```str```\n\n    :param times: how often\n    :type times: ```int```\n\n    :return: the greeting\n    :rtype: ```str```\n    """\n    return (PREFIX + name).upper() * times\n',
     "fmt": "google", "type_annotations": False, "no_word_wrap": None},
    {"src": 'def pad(text: str, fill: str = "  ", sep: str = ",  ", *parts, wide: bool = False, **kw) -> str:\n'
            '    """\n    Pad it\n\n    :param text: the text\n\n    :param fill: filler\n\n    :param sep: separator\n\n    :param wide: wide\n\n    :return: padded\n    """\n    return text\n',
     "fmt": "google", "type_annotations": True, "no_word_wrap": None},
]


def collect(ctx, n, _unused=0):
    rng = ctx.rng
    cases = list(CORPUS) + [gen_case(rng) for _ in range(n)]
    agg = {"n": 0, "ran": 0, "raised": 0, "changed": 0, "headers": 0}
    kinds = {}
    items, corr = [], []
    for r in run_cases(worker, [cases[i:i + 10] for i in range(0, len(cases), 10)], chunk=1):
        if "harness_error" in r:
            items.append(("C07/harness/error", {"detail": r}, None))
            continue
        for k in agg:
            agg[k] += r[k]
        for k, v in r["raised_kinds"].items():
            kinds[k] = kinds.get(k, 0) + v
        items += r["items"]
        corr += r["corr"][:3]
    agg["raised_kinds"] = kinds
    # input distribution: which features the generated modules carry (measured on the sources themselves)
    dist = {"modules": len(cases), "lines": {}, "defs_per_module": {}, "features": {}, "config": {}}
    for c in cases:
        try:
            tree = ast.parse(c["src"])
        except SyntaxError:
            continue
        idx = def_index(tree)
        lines = c["src"].split("\n")
        b = "%d-%d" % (len(lines) // 20 * 20, len(lines) // 20 * 20 + 19)
        dist["lines"][b] = dist["lines"].get(b, 0) + 1
        k = str(sum(1 for n in idx.values() if not isinstance(n, ast.ClassDef)))
        dist["defs_per_module"][k] = dist["defs_per_module"].get(k, 0) + 1
        fs = set()
        for n in idx.values():
            fs |= def_features(n, lines)
        for f in fs:
            dist["features"][f] = dist["features"].get(f, 0) + 1
        cfg = "%s/%s/%s" % (c["fmt"], "annotations" if c["type_annotations"] else "docstring-types", "nowrap" if c["no_word_wrap"] else "wrap")
        dist["config"][cfg] = dist["config"].get(cfg, 0) + 1
    agg["distribution"] = dist
    return agg, items, corr, cases


def run(ctx):
    status = coqbuild.prove("C07", THEOREMS)
    agg, items, corr, cases = collect(ctx, 400 if ctx.quick else 18000)
    for cls, det, c in items:
        ctx.item(cls, {"stage": "cdd.compound.doctrans.doctrans on generated modules", "clause": cls,
                       "input": {k: c[k] for k in ("fmt", "type_annotations", "no_word_wrap", "src")} if c else None, "detail": det})
    # Model/Reindent.v (C07_header_untouched_by_reindent) against cst_utils.reindent_block_with_pass_body on generated header texts
    RA = ["def f(", "a", ", ", "b=1", "sep=',  '", "pad='    '", "):", " ", "    ", "\n", "        ", "x: int", "*rest", "-> int:", "async ", "'  '", "\t"]
    rtexts = ["".join(ctx.rng.choice(RA) for _ in range(ctx.rng.randint(1, 9))) for _ in range(400 if ctx.quick else 10000)] + \
        ["    def f(a, indent='    '):", "def g(\n    a,\n    b=2,\n):", "        async def h(x: int = 5, *rest, sep=',  ') -> int:"]
    from cdd.shared.cst_utils import reindent_block_with_pass_body as _rb
    for t_, m_ in zip(rtexts, call_many("reindent_block", rtexts)):
        if _rb(t_) != m_:
            corr.append({"stage": "reindent_block_with_pass_body", "value": t_, "impl": _rb(t_), "model": m_})
    agg["reindent_texts"] = len(rtexts)
    if not ctx.violations:
        if corr:
            ctx.violation({"stage": "correspondence: Model/Doctrans.v header_reprint vs cdd.shared.ast_cst_utils.maybe_replace_function_args",
                           "detail": corr[:2], "n_disagreements": len(corr)}, no_input=True)
        elif not status["ok"]:
            ctx.violation({"stage": "proof", "theorem": status.get("failing_theorem"),
                           "doctrans_order": status.get("gen", {}).get("writeorder", {}).get("order"),
                           "status": {k: status[k] for k in ("theorems", "forbidden", "build_log") if k in status}}, no_input=True)
    cov = {
        "obligations": status["obligations"], "discharged": status["discharged"],
        "checker_cmd": coqbuild.CHECKER_CMD.replace("<id>", "C07"), "theorems": status["theorems"],
        "trusted_base": GLOBAL_TRUSTED_BASE + [
            "translate/writeorder.py: linearisation of doctrans() into calls in evaluation order (compound constructs fail closed); calls "
            "named in BENIGN (list, map, attrgetter, deepcopy, fix_missing_locations, str.join, f.read, f.write) are assumed not to raise "
            "for package-logic reasons",
            "modelled: in-place CST node replacement + join (on top of the C09 scanner/parser model), maybe_replace_function_args' header "
            "re-print, the call order of doctrans().  NOT modelled: DocTrans (the AST-level rewrite), find_cst_at_ast, "
            "maybe_replace_doc_str_in_function_or_class, maybe_replace_function_return_type -- those are exercised end to end only"],
        "evaluations": agg["n"], "distinct_nontrivial": agg["changed"],
        "rule": "generated modules (functions, async functions, classes with bases/metaclass and methods, nested defs, defaults, *args, "
                "keyword-only, **kwargs, plain and call decorators incl. ones containing the function name, multi-line headers, comments "
                "after headers / after docstrings / in bodies / at top level, docstrings in rest / google / numpydoc / none with types in "
                "annotations / in the docstring / nowhere, annotated and type-commented assignments, triple-quoted strings holding a fake "
                "def, string return annotations) x target style x type_annotations x word-wrap; non-trivial = the file was rewritten",
        "completed": agg["ran"], "raised": agg["raised"], "raised_kinds": agg["raised_kinds"], "rewritten": agg["changed"],
        "input_distribution": agg["distribution"],
        "headers_compared_with_model": agg["headers"], "model_disagreements": len(corr),
        "traces_validated_against_impl": agg["headers"],
        "samples": [{k: cases[4][k] for k in ("fmt", "type_annotations", "no_word_wrap")}, cases[4]["src"][:400]] if len(cases) > 4 else [],
        "build": {k: status[k] for k in ("build_s", "forbidden")},
        "doctrans_order": status.get("gen", {}).get("writeorder", {}).get("order"),
    }
    return ctx.finish("proof", cov, assumptions=[
        "failure atomicity is decided on the call order of doctrans() (theorem) and observed on inputs that make the write-back raise; "
        "a crash of the interpreter or the OS during the final write is outside the model"])


def replay(ctx, payload):
    return run(ctx)
