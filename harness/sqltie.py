"""Correspondence of Model/SqlCol.v with param_to_sqlalchemy_column_calls / column_call_to_param (one Column(...) call)."""
import ast
import contextlib
import copy
import io
import re

from .model import call_many

BASES = ["int", "float", "str", "bool", "dict"]
DOCS = ["the value", "the value.", "ends with dots...", "[PK] identifier", "[PK]", "[PK]  spaced twice.", "[FK(other.id)] the owner", "[FK(t.id)]",
        "", "...", "a [PK] inside", "[PKX] odd", "name of it. ", "x"]
DEFAULTS = {"int": [5, 0, -3], "float": [0.5, -1.5], "str": ["x", "hello world", "", "None"], "bool": [True, False], "dict": [], "lit": ["a"]}


def gen(rng):
    if rng.random() < 0.2:
        members = sorted(rng.sample(["a", "b", "c", "np"], rng.randint(2, 3)))
        base, key = members, "lit"
    else:
        base = key = rng.choice(BASES)
    opt = rng.random() < 0.4
    doc = rng.choice(DOCS) if rng.random() < 0.9 else None
    k = rng.random()
    if k < 0.5 or not DEFAULTS[key]:
        dflt = None
    elif k < 0.65:
        dflt = "NONESTR"
    else:
        dflt = ["v", rng.choice(DEFAULTS[key])]
    return {"opt": opt, "base": base, "doc": doc, "default": dflt}


def typ_text(c):
    t = c["base"] if isinstance(c["base"], str) else "Literal[%s]" % ", ".join(repr(m) for m in c["base"])
    return "Optional[%s]" % t if c["opt"] else t


def enc_default(d):
    from cdd.shared.ast_utils import NoneStr
    if d is None:
        return None
    if d == "NONESTR" or d == NoneStr:
        return True
    return repr(d[1]) if isinstance(d, list) else repr(d)


def col_of_call(call):
    t = call.args[1]
    ctype = t.id if isinstance(t, ast.Name) else [ast.literal_eval(a) for a in t.args]
    fk = None
    for a in call.args[2:]:
        if isinstance(a, ast.Call) and a.func.id == "ForeignKey":
            fk = ast.literal_eval(a.args[0])
    kw = {k.arg: k.value for k in call.keywords}
    dflt = None
    if "default" in kw:
        v = ast.literal_eval(kw["default"])
        dflt = True if v is None else repr(v)
    return [ctype, fk, "primary_key" in kw, ast.literal_eval(kw["comment"]) if "comment" in kw else None, dflt,
            ast.literal_eval(kw["nullable"]) if "nullable" in kw else None]


def typ_of_text(t):
    opt = t.startswith("Optional[")
    if opt:
        t = t[len("Optional["):-1]
    if t.startswith("Literal"):
        return [opt, list(ast.literal_eval(t[len("Literal"):]))]
    return [opt, t]


def impl(c):
    from cdd.shared.ast_utils import NoneStr
    from cdd.sqlalchemy.utils.emit_utils import param_to_sqlalchemy_column_calls
    from cdd.sqlalchemy.utils.parse_utils import column_call_to_param
    p = {"typ": typ_text(c)}
    if c["doc"] is not None:
        p["doc"] = c["doc"]
    if c["default"] == "NONESTR":
        p["default"] = NoneStr
    elif c["default"] is not None:
        p["default"] = c["default"][1]
    with contextlib.redirect_stdout(io.StringIO()), contextlib.redirect_stderr(io.StringIO()):
        call = param_to_sqlalchemy_column_calls(("col", copy.deepcopy(p)), include_name=True)[0]
        src = ast.unparse(ast.fix_missing_locations(call))
        call2 = ast.parse(src).body[0].value
        name, back = column_call_to_param(call2)
    return src, col_of_call(call2), [typ_of_text(back["typ"]), back.get("doc"), enc_default(back["default"]) if "default" in back else None]


def compare(cases):
    ms = call_many("sql_emit_col", [[[c["opt"], c["base"]], c["doc"], enc_default(c["default"])] for c in cases])
    bad, n, cols = [], 0, []
    for c, m in zip(cases, ms):
        try:
            src, col, back = impl(c)
        except Exception as e:  # noqa
            bad.append({"stage": "sqlalchemy column", "input": c, "impl": "raised %s: %s" % (type(e).__name__, str(e)[:80]), "model": m})
            continue
        n += 1
        if col != m:
            bad.append({"stage": "sqlalchemy column (emit)", "input": c, "source": src, "impl": col, "model": m})
            continue
        cols.append((c, src, col, back))
    mp = call_many("sql_parse_col", [col for _c, _s, col, _b in cols]) if cols else []
    for (c, src, col, back), m in zip(cols, mp):
        if back != m:
            bad.append({"stage": "sqlalchemy column (parse)", "input": c, "source": src, "impl": back, "model": m})
    return n, bad
