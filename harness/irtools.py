"""Shared tooling for the interface-round-trip properties (C01 C02 C03 C04 C05 C08 C12):
IR generator over the properties' domains, one `hop` per format (emit -> source text -> re-read -> parse), and a
comparison that turns every difference into a discrepancy CLASS (format-independent vocabulary) so that known findings
are matched per class and anything else is a violation."""
import ast
import contextlib
import copy
import io
import re
from collections import OrderedDict

NoneStr = "```(None)```"

NAMES = ["alpha", "beta", "gamma", "delta", "eps", "zeta", "eta", "theta", "iota", "kappa"]
SCALARS = ["int", "float", "str", "bool"]
PLAIN_DOCS = ["the value", "first item to use", "the name shown to the user", "size in bytes", "extra flag", "base directory"]
TRIGGER_DOCS = ["number of items", "whether to do it", "list of names", "path to the file", "Either `a` or `b`.", "Optional, the thing",
                "True if enabled"]


def kind_of_default(d):
    if d is _ABSENT:
        return "absent"
    if d is None:
        return "pyNone"
    if d == NoneStr:
        return "None"
    if isinstance(d, bool):
        return "bool"
    if isinstance(d, int):
        return "negint" if d < 0 else "int"
    if isinstance(d, float):
        return "negfloat" if d < 0 else "float"
    if isinstance(d, str):
        if d == "":
            return "emptystr"
        if d.startswith("```") and d.endswith("```"):
            return "code"
        return "str"
    if isinstance(d, (list, tuple, dict, set)):
        return type(d).__name__
    if isinstance(d, ast.AST):
        return "ast"
    return type(d).__name__


class _Absent(object):
    def __repr__(self):
        return "<absent>"


_ABSENT = _Absent()


def gen_type(rng, domain):
    """domain: 'common' (C03: scalar, Optional[scalar], Literal[str..]) | 'sig' (C02) | 'doc' (C01) | 'sql' | 'exec'"""
    k = rng.random()
    if domain == "common":
        if k < 0.5:
            return rng.choice(SCALARS)
        if k < 0.8:
            return "Optional[%s]" % rng.choice(SCALARS)
        return "Literal[%s]" % ", ".join("'%s'" % m for m in rng.sample(["a", "b", "c", "np", "tf"], rng.randint(2, 3)))
    if domain == "sql":
        if k < 0.55:
            return rng.choice(SCALARS)
        if k < 0.65:
            return "dict"
        if k < 0.85:
            return "Optional[%s]" % rng.choice(SCALARS)
        return "Literal[%s]" % ", ".join("'%s'" % m for m in rng.sample(["a", "b", "c", "np", "tf"], rng.randint(2, 3)))
    if k < 0.4:
        return rng.choice(SCALARS)
    if k < 0.6:
        return "Optional[%s]" % rng.choice(SCALARS + ["List[str]"])
    if k < 0.72:
        return "Literal[%s]" % ", ".join("'%s'" % m for m in rng.sample(["a", "b", "c", "np", "tf"], rng.randint(2, 3)))
    if k < 0.82:
        return rng.choice(["List[str]", "List[int]"])
    if k < 0.9:
        return rng.choice(["Union[int, str]", "Union[int, float]"])
    return rng.choice(["np.ndarray", "tf.Tensor"]) if domain == "doc" else rng.choice(["dict", "list"])


def gen_default(rng, typ, allow_none=True, negatives=True, code=False):
    inner = typ[len("Optional["):-1] if typ.startswith("Optional[") else typ
    if typ.startswith("Optional[") and allow_none and rng.random() < 0.4:
        return NoneStr
    if inner.startswith("Literal["):
        return re.findall(r"'([^']*)'", inner)[0]
    if inner == "int":
        return rng.choice([0, 5, 42] + ([-3] if negatives else []))
    if inner == "float":
        return rng.choice([0.5, 2.25, 0.0] + ([-1.5] if negatives else []))
    if inner == "str":
        return rng.choice(["x", "hello", "a b"])
    if inner == "bool":
        return rng.choice([True, False])
    if inner.startswith("Union[int"):
        return rng.choice([5, 7])
    if code and inner in ("np.ndarray", "tf.Tensor", "List[str]", "List[int]", "dict", "list"):
        return rng.choice(["```[]```", "```None```"]) if inner.startswith("List") else NoneStr
    # non-scalar, non-Optional types: no literal default in the domain (None only under Optional[..])
    return NoneStr if (typ.startswith("Optional[") and allow_none) else _ABSENT


def gen_ir(rng, domain="sig", n_max=6, docs="plain", suffix_defaults=True, returns=0.5, all_defaults=False, negatives=True):
    n = rng.randint(0 if domain != "common" else 1, n_max)
    names = rng.sample(NAMES, n)
    k_def = n if all_defaults else rng.randint(0, n)
    params = OrderedDict()
    for i, nm in enumerate(names):
        t = gen_type(rng, domain)
        p = {"typ": t, "doc": rng.choice(PLAIN_DOCS if docs == "plain" else PLAIN_DOCS + TRIGGER_DOCS)}
        has_default = (i >= n - k_def) if suffix_defaults else (rng.random() < 0.5)
        if has_default:
            d = gen_default(rng, t, allow_none=not all_defaults, negatives=negatives)
            if d is not _ABSENT:
                p["default"] = d
        params[nm] = p
    ir = {"name": "Thing", "doc": rng.choice(["Thing description.", "Summary line.\n\nLonger explanation of the thing."]),
          "params": params, "returns": None}
    if rng.random() < returns:
        rt = rng.choice(SCALARS)
        ir["returns"] = OrderedDict((("return_type", {"typ": rt, "doc": rng.choice(["the result", "the result", "the pair, first the count, then the label"])}),))
        if rng.random() < 0.4:   # return defaults are code-quoted expressions in the IR (cf. the suite's mocks)
            ir["returns"]["return_type"]["default"] = {"int": "```5```", "float": "```0.5```", "str": "```'ok'```", "bool": "```True```"}[rt]
    return ir


# ---- hops ----------------------------------------------------------------------------------------------------------------
def _quiet():
    return contextlib.redirect_stderr(io.StringIO())


def hop(fmt, ir, cfg=None):
    """emit -> to_code -> ast.parse -> parse.  Returns (ir_out, source_text).  Raises whatever the implementation raises."""
    import cdd.argparse_function.emit, cdd.argparse_function.parse, cdd.class_.emit, cdd.class_.parse, cdd.docstring.emit
    import cdd.docstring.parse, cdd.function.emit, cdd.function.parse, cdd.json_schema.emit, cdd.json_schema.parse
    import cdd.pydantic.emit, cdd.pydantic.parse, cdd.sqlalchemy.emit, cdd.sqlalchemy.parse
    from cdd.shared.source_transformer import to_code

    cfg = dict(cfg or {})
    ir = copy.deepcopy(ir)
    style = cfg.get("docstring_format", "rest")
    edd = cfg.get("emit_default_doc", False)
    with _quiet():
        if fmt == "class":
            node = cdd.class_.emit.class_(ir, docstring_format=style, emit_default_doc=edd, word_wrap=cfg.get("word_wrap", True))
            src = to_code(node)
            return cdd.class_.parse.class_(ast.parse(src).body[0]), src
        if fmt == "pydantic":
            node = cdd.pydantic.emit.pydantic(ir, docstring_format=style, emit_default_doc=edd, word_wrap=cfg.get("word_wrap", True))
            src = to_code(node)
            return cdd.pydantic.parse.pydantic(ast.parse(src).body[0]), src
        if fmt == "function":
            node = cdd.function.emit.function(ir, function_name="thing", function_type="static", docstring_format=style,
                                              emit_default_doc=edd, type_annotations=cfg.get("type_annotations", True),
                                              emit_as_kwonlyargs=cfg.get("kwonly", True), word_wrap=cfg.get("word_wrap", True))
            src = to_code(node)
            return cdd.function.parse.function(ast.parse(src).body[0]), src
        if fmt == "argparse":
            node = cdd.argparse_function.emit.argparse_function(ir, docstring_format=style, emit_default_doc=edd,
                                                                word_wrap=cfg.get("word_wrap", True))
            src = to_code(node)
            return cdd.argparse_function.parse.argparse_ast(ast.parse(src).body[0]), src
        if fmt == "docstring":
            src = cdd.docstring.emit.docstring(ir, docstring_format=style, emit_default_doc=cfg.get("emit_default_doc", True),
                                               emit_types=cfg.get("emit_types", True), word_wrap=cfg.get("word_wrap", True))
            out = cdd.docstring.parse.docstring(src, emit_default_doc=cfg.get("parse_emit_default_doc", False))
            out["name"] = ir.get("name")
            return out, src
        if fmt == "json_schema":
            import json
            d = cdd.json_schema.emit.json_schema(ir)
            src = json.dumps(d)
            return cdd.json_schema.parse.json_schema(json.loads(src)), src
        if fmt in ("sqlalchemy", "sqlalchemy_table", "sqlalchemy_hybrid"):
            em = getattr(cdd.sqlalchemy.emit, fmt)
            kw = {"docstring_format": style, "emit_default_doc": edd}
            if "force_pk_id" in cfg:
                kw["force_pk_id"] = cfg["force_pk_id"]
            if fmt == "sqlalchemy_table":
                kw["name"] = ir.get("name") or "config_tbl"   # the parser requires binding name == table name
            node = em(ir, **kw)
            src = to_code(node)
            pr = getattr(cdd.sqlalchemy.parse, fmt)
            return pr(ast.parse(src).body[0]), src
    raise ValueError(fmt)


# ---- comparison ------------------------------------------------------------------------------------------------------------
def norm_doc(d, strip_default=False):
    if d is None:
        return ""
    d = " ".join(str(d).split())
    if strip_default:   # the default is carried in the prose when emit_default_doc is on
        d = re.sub(r"\.?\s*Defaults? (to|is) .*$", "", d)
    return d[:-1] if d.endswith(".") else d


def norm_default(d):
    """a code-quoted literal and the literal itself denote the same default"""
    if isinstance(d, str) and d.startswith("```") and d.endswith("```") and d != NoneStr:
        try:
            return ast.literal_eval(d.strip("`"))
        except Exception:  # noqa
            return d
    return d


def typ_change(a, b):
    if a == b:
        return None
    if a is None:
        return "typ-invented"
    if b is None:
        return "typ-lost"
    if b == "Optional[%s]" % a:
        return "Optional-added"
    if a == "Optional[%s]" % b:
        return "Optional-lost"
    sa = re.sub(r"\s+", "", a)
    sb = re.sub(r"\s+", "", b)
    if sa == sb:
        return None
    if sa.startswith("Literal[") and sb.replace("Optional[", "").startswith("Literal["):
        if frozenset(re.findall(r"'([^']*)'|\"([^\"]*)\"", sa)) == frozenset(re.findall(r"'([^']*)'|\"([^\"]*)\"", sb)) and \
                sb.startswith("Literal["):
            return "typ:Literal-members-reordered"      # the same members in another order: not the same type string
    head = lambda t: re.match(r"[A-Za-z_.]*", t.replace("Optional[", "", 1) if t.startswith("Optional[") else t).group(0) or "?"
    return "typ:%s%s->%s%s" % ("Opt-" if a.startswith("Optional[") else "", head(a), "Opt-" if b.startswith("Optional[") else "", head(b))


def compare(ir_in, ir_out, norm=None, edd=False):
    """-> list of (cls_suffix, detail).  `norm` = documented per-format normalisations:
         'function' : a parameter without default is shown as =None
         'argparse' : the return entry is kept only when it has a default"""
    items = []
    pin, pout = ir_in.get("params") or {}, ir_out.get("params") or {}
    if list(pin) != list(pout):
        missing = [k for k in pin if k not in pout]
        extra = [k for k in pout if k not in pin]
        items.append(("names/%s" % ("order" if not missing and not extra else ("missing" if missing else "extra")),
                      {"in": list(pin), "out": list(pout)}))
    for k in pin:
        if k not in pout:
            continue
        a, b = pin[k], pout[k]
        tc = typ_change(a.get("typ"), b.get("typ"))
        da = a["default"] if "default" in a else _ABSENT
        db = b["default"] if "default" in b else _ABSENT
        if norm == "function" and da is _ABSENT:
            da = NoneStr
        ka, kb = kind_of_default(da), kind_of_default(db)
        same_default = (ka == kb) and (da is _ABSENT or da == db)
        if tc:
            items.append(("param/%s/default-%s" % (tc, ka), {"param": k, "in": a.get("typ"), "out": b.get("typ"), "default": repr(da)}))
        if not same_default:
            items.append(("param/default:%s->%s%s" % (ka, kb, "" if ka != kb else "/value"),
                          {"param": k, "typ": a.get("typ"), "in": repr(da), "out": repr(db)}))
        if norm_doc(a.get("doc"), edd) != norm_doc(b.get("doc"), edd):
            items.append(("param/doc%s" % ("/lost" if not b.get("doc") else ""), {"param": k, "in": a.get("doc"), "out": b.get("doc")}))
    ra = (ir_in.get("returns") or {}).get("return_type")
    rb = (ir_out.get("returns") or {}).get("return_type")
    if norm == "argparse" and ra is not None and "default" not in ra:
        ra = None
    if (ra is None) != (rb is None):
        items.append(("returns/%s" % ("lost" if rb is None else "invented"), {"in": ra, "out": rb}))
    elif ra is not None:
        tc = typ_change(ra.get("typ"), rb.get("typ"))
        if tc:
            items.append(("returns/%s" % tc, {"in": ra.get("typ"), "out": rb.get("typ")}))
        da = norm_default(ra["default"]) if "default" in ra else _ABSENT
        db = norm_default(rb["default"]) if "default" in rb else _ABSENT
        if kind_of_default(da) != kind_of_default(db) or (da is not _ABSENT and da != db):
            items.append(("returns/default:%s->%s" % (kind_of_default(da), kind_of_default(db)), {"in": repr(da), "out": repr(db)}))
        if norm_doc(ra.get("doc"), edd) != norm_doc(rb.get("doc"), edd):
            items.append(("returns/doc", {"in": ra.get("doc"), "out": rb.get("doc")}))
    return items


def core(ir):
    """names, order, type strings, defaults (kind and value) -- what C03 compares"""
    return [(k, v.get("typ"), kind_of_default(v["default"] if "default" in v else _ABSENT), repr(v.get("default")))
            for k, v in (ir.get("params") or {}).items()]


def jsonable(ir):
    def f(x):
        if isinstance(x, dict):
            return {k: f(v) for k, v in x.items() if k != "_internal"}
        if isinstance(x, (list, tuple)):
            return [f(v) for v in x]
        if isinstance(x, ast.AST):
            return "<ast %s>" % type(x).__name__
        if isinstance(x, (str, int, float, bool)) or x is None:
            return x
        return repr(x)
    return f(ir)
