"""Evaluate Coq terms with vm_compute through a scratch file (kernel evaluation of the models)."""
import os
import re

from .common import COQ
from .coqbuild import sh

QS = " ".join("-Q %s CDD" % x for x in ("Base", "Model", "Gen", "Proofs", "Properties", "Run"))


def coq_eval(header, terms, tag, timeout=900):
    """terms: list of (label, coq term). Returns {label: printed text} (text between '= ' and the final ': type')."""
    d = os.path.join(COQ, ".audit")
    os.makedirs(d, exist_ok=True)
    base = os.path.join(d, "Eval_%s_%d" % (tag, os.getpid()))
    with open(base + ".v", "w") as f:
        f.write(header + "\n")
        for label, term in terms:
            f.write('Goal True. idtac "@@BEGIN %s". Abort.\n' % label)
            f.write("Eval vm_compute in (%s).\n" % term)
            f.write('Goal True. idtac "@@END %s". Abort.\n' % label)
    rc, out = sh("timeout %d coqc %s %s.v" % (timeout, QS, base), timeout=timeout + 30)
    for ext in (".v", ".vo", ".vok", ".vos", ".glob"):
        try:
            os.remove(base + ext)
        except OSError:
            pass
    try:
        os.remove(os.path.join(d, "." + os.path.basename(base) + ".aux"))
    except OSError:
        pass
    res = {}
    for label, _ in terms:
        m = re.search(r"@@BEGIN %s\n(.*?)@@END %s" % (re.escape(label), re.escape(label)), out, re.S)
        if m:
            body = m.group(1).strip()
            mm = re.match(r"=\s*(.*)\n\s*:\s[^\n]*(\n\s+[^\n]*)*$", body, re.S)
            res[label] = " ".join((mm.group(1) if mm else body).split())
    return res, rc, out


def parse_pos_lists(text):
    """'[[1; 2]; [3]]' -> [[1,2],[3]]  (also handles %positive suffixes)."""
    text = text.replace("%positive", "").replace("%nat", "").replace("%Z", "")
    out = []
    for grp in re.findall(r"\[([0-9; ]*)\]", text):
        out.append([int(x) for x in grp.replace(";", " ").split()])
    return out
