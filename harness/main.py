"""./check <Cxx> [--tier quick|thorough] [--replay file]"""
import argparse
import importlib
import json
import os
import sys

from .common import Ctx, get_seed


def main():
    ap = argparse.ArgumentParser()
    ap.add_argument("prop")
    ap.add_argument("--tier", default=os.environ.get("VERIF_TIER", "quick"), choices=["quick", "thorough"])
    ap.add_argument("--replay", default=None)
    a = ap.parse_args()
    prop = a.prop.upper()
    try:
        mod = importlib.import_module("harness.checks." + prop.lower())
    except ModuleNotFoundError:
        print("no check for", prop)
        return 2
    ctx = Ctx(prop, a.tier, get_seed())
    if a.replay:
        with open(a.replay) as f:
            payload = json.load(f)
        return mod.replay(ctx, payload)
    return mod.run(ctx)


if __name__ == "__main__":
    sys.exit(main())
