"""Correspondence of Model/ExtractDefault.v (extract_default at text level) with cdd.shared.defaults_utils.extract_default.
Used by C01 (defaults carried in the prose) and C08 (the announcer is stripped and re-appended every round)."""
from .model import call_many

ALPHA = ["Defaults to ", "defaults to ", "defaults to\n", "Default value is ", "Default:", "(default: ", "(Defaults to ", "(defaults to ", "DEFAULTS TO ",
         "Defaultſ to ", "default", "Default", " to ", ".", ". ", ")", ").", "(", "[", "]", "{", "}", "`", "```", " ", "  ", "\n", "\t", "1", "5", "-3",
         "0.5", "2.", ".5", "the", "size", "Größe", "Maß", "İ", "ﬁle", "name", "of", "x", "True", "None", "'a'", "\"b c\"", ",", ";", ":",
         "join", "copy()", "e", "a.b", "K"]
TEMPL = [lambda d, t: d + ". Defaults to " + t, lambda d, t: d + " Defaults to " + t + ".", lambda d, t: d + " (default: " + t + ")",
         lambda d, t: d + " (defaults to " + t + ").", lambda d, t: d + ", defaults to " + t + ". More " + d, lambda d, t: "Defaults to " + t,
         lambda d, t: d + "\nDefaults to " + t, lambda d, t: d + ".\nDefaults to " + t, lambda d, t: d + ". Default value is " + t + " ",
         lambda d, t: d + " Default:" + t, lambda d, t: d + ".\n    Defaults to " + t]
DOCS = ["the size", "Größe des Puffers", "Maß der Auslastung", "the name.", "number of items,", "İstanbul ﬁle", "a (b) c", "x",
        "the number of steps taken before the estimate of the gradient is considered to have settled over"]
DEFS = ["5", "-16", "12.5", "7", "\"hello\"", "True", "None", "```(\"-\" * 3).join(\"ab\")```", "```[\"b\", \"a\"].copy()```", "```(1.5).real```", "(None)",
        "[1, 2]", "1.", "a.b", "1.5.2", "`x`", " 3 ", "{}", "```{}.keys()```", "```(None)```"]


def gen(rng):
    if rng.random() < 0.5:
        return rng.choice(TEMPL)(rng.choice(DOCS), rng.choice(DEFS))
    return "".join(rng.choice(ALPHA) for _ in range(rng.randint(0, 9)))


def casefold_facts():
    """what Model/ExtractDefault.v:fold_char relies on, over every code point: a fold is never empty, and the only non-ASCII code
    points folding to one ASCII character are U+017F and U+212A"""
    bad = []
    for cp in range(0x110000):
        if 0xD800 <= cp <= 0xDFFF:
            continue
        f = chr(cp).casefold()
        if not f:
            bad.append(cp)
        elif cp > 127 and len(f) == 1 and ord(f) < 128 and cp not in (0x17F, 0x212A):
            bad.append(cp)
        elif cp < 128 and f != chr(cp).lower():
            bad.append(cp)
    return bad


def impl(line, edd):
    import cdd.shared.defaults_utils as du
    cap = {}
    orig = du._parse_out_default_and_doc

    def spy(_start_idx, start_rest_offset, default, *a, **k):
        cap["default"] = default
        return orig(_start_idx, start_rest_offset, default, *a, **k)
    du._parse_out_default_and_doc = spy
    try:
        try:
            r = du.extract_default(line, emit_default_doc=edd)
        except Exception as e:  # noqa
            return ["RAISE " + type(e).__name__, cap.get("default")]
    finally:
        du._parse_out_default_and_doc = orig
    return [r[0], cap.get("default")]


def compare(cases):
    """cases: [(line, emit_default_doc)] -> (n, n_with_default, disagreements)"""
    ms = call_many("extract_default_text", [[l, e] for l, e in cases])
    bad, found = [], 0
    for (l, e), m in zip(cases, ms):
        i = impl(l, e)
        found += m[1] is not None
        if i != m:
            bad.append({"stage": "extract_default", "input": {"line": l, "emit_default_doc": e}, "impl": i, "model": m})
    return len(cases), found, bad
