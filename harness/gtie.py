"""Correspondence of Model/GoogleLine.v with the Google parameter lines: emit_param_str (style "google") and the unit reader of
_parse_phase_numpydoc_and_google as reached through parse_docstring."""
import contextlib
import io

from .model import call_many

NAMES = ["a", "alpha", "beta_2", "x", "dataset_name", "K", "_private", "kw", "n0"]
TYPES = ["int", "str", "float", "bool", "List[str]", "Optional[int]", "Dict[str, int]", "Literal['a', 'b']", "Union[int, str]",
         "Callable[[int], str]", "np.ndarray", "Tuple[int, ...]"]
WORDS = ["the", "size", "within", "buffer", "in", "bytes", "name", "used", "for", "lookup", "how", "many", "items", "a-b", "x_y", "[units]", "100%",
         "fast;", "slow,", "it's", "3.5", "N/A"]
WILD = ["  ", " ", "a", "alpha", "b_2", "(", ")", ":", "int", "str", "List[str]", "the value", "x", " or ", "{", "}", ", ", "{x, y}"]


def gen(rng):
    """-> {"entries": [[name, typ|None, doc|None]...] (the domain of C01_google_params_roundtrip), "wild": [line...]}"""
    es = []
    for n in rng.sample(NAMES, rng.randint(1, 5)):
        t = rng.choice(TYPES) if rng.random() < 0.8 else None
        d = " ".join(rng.choice(WORDS) for _ in range(rng.randint(1, 6))) if rng.random() < 0.8 else None
        es.append([n, t, d])
    wild = []
    for _ in range(rng.randint(1, 4)):
        body = "".join(rng.choice(WILD) for _ in range(rng.randint(1, 7))).strip()
        if body:
            wild.append("  " + body)
    return {"entries": es, "wild": wild}


def _read(lines):
    from cdd.shared.docstring_parsers import parse_docstring
    text = "Header.\n\nArgs:\n" + "\n".join(lines)
    try:
        with contextlib.redirect_stderr(io.StringIO()):
            ir = parse_docstring(text, emit_default_doc=False)
    except BaseException as e:  # noqa
        return "raises", type(e).__name__
    return [[k, v.get("typ"), v.get("doc") or ""] for k, v in ir["params"].items()], ir.get("doc")


def compare(cases):
    from cdd.shared.docstring_utils import emit_param_str
    bad, n = [], 0
    flat = [e for c in cases for e in c["entries"]]
    flat_lines = call_many("google_emit_param", flat)
    for e, m in zip(flat, flat_lines):
        p = {}
        if e[1] is not None:
            p["typ"] = e[1]
        if e[2] is not None:
            p["doc"] = e[2]
        with contextlib.redirect_stderr(io.StringIO()):
            i = emit_param_str((e[0], p), style="google", emit_doc=True, emit_type=True, word_wrap=False, emit_default_doc=False, purpose="function")
        n += 1
        if i != m:
            bad.append({"stage": "Google parameter line (emit_param_str)", "input": e, "impl": i, "model": m})
    # lines the model wrote (the theorem's domain) and malformed lines
    sets, k = [], 0
    for c in cases:
        sets.append(("domain", flat_lines[k:k + len(c["entries"])], c["entries"]))
        k += len(c["entries"])
        if c["wild"]:
            sets.append(("wild", c["wild"], None))
    for (kind, lines, entries), m in zip(sets, call_many("google_params", [s[1] for s in sets])):
        if m == "other":
            continue
        got = _read(lines)
        n += 1
        want = "raises" if m == "raises" else [[a, b, c_] for a, b, c_ in m]
        if want != "raises" and len({w[0] for w in want}) != len(want):
            continue        # a repeated name overwrites the earlier entry (dict semantics): not part of the model
        if want != "raises" and any(t_ in w[2] for w in want for t_ in ("str", "int", " or", "or ", "List", "`")):
            continue        # a description that names a type: parse_adhoc_doc_for_typ re-types the entry afterwards (C17's model, not this one)
        if got[0] != want:
            bad.append({"stage": "Google parameter section (%s lines)" % kind, "input": lines, "impl": got[0], "model": want})
        elif kind == "domain" and want != [[e[0], e[1], e[2] or ""] for e in entries]:
            bad.append({"stage": "Google round trip (theorem's domain)", "input": entries, "impl": got[0], "model": want})
    return n, bad


# ---- NumPy entries (Model/NumpyLine.v) ---------------------------------------------------------------------------------------------
NWILD = ["a", "alpha", " ", ":", " : ", "int", "List[str]", "the value", "x", "b_2"]


def gen_numpy(rng):
    """-> units: [[first line, deeper-indented lines...]...]; mostly what the emitter writes for a typed parameter, some malformed"""
    units = []
    for n in rng.sample(NAMES, rng.randint(1, 4)):
        k = rng.random()
        if k < 0.7:
            t = rng.choice(TYPES)
            d = " ".join(rng.choice(WORDS) for _ in range(rng.randint(1, 6))) if rng.random() < 0.8 else None
            units.append({"entry": [n, t, d]})
        else:
            first = "".join(rng.choice(NWILD) for _ in range(rng.randint(1, 5))).strip()
            if first:
                units.append({"lines": [first] + (["    " + rng.choice(["the value", "x: y", "more text"])] if rng.random() < 0.6 else [])})
    return units


def compare_numpy(cases):
    from cdd.shared.docstring_parsers import parse_docstring
    from cdd.shared.docstring_utils import emit_param_str
    bad, n = [], 0
    entries = [u["entry"] for c in cases for u in c if "entry" in u]
    flags = [(True, True), (False, True), (True, False)]
    q = [[et, ed] + e for e in entries for et, ed in flags]
    for a, m in zip(q, call_many("numpy_emit_param", q)):
        p = {k: v for k, v in (("typ", a[3]), ("doc", a[4])) if v is not None}
        with contextlib.redirect_stderr(io.StringIO()):
            i = emit_param_str((a[2], p), style="numpydoc", emit_doc=a[1], emit_type=a[0], word_wrap=False, emit_default_doc=False, purpose="function")
        n += 1
        if i != "\n".join(m):
            bad.append({"stage": "NumPy parameter entry (emit_param_str)", "input": a, "impl": i, "model": m})
    for c in cases:
        units = []
        for u in c:
            if "entry" in u:
                e = u["entry"]
                units.append([e[0] + " : " + e[1]] + (["    " + e[2]] if e[2] is not None else []))
            else:
                units.append(u["lines"])
        if not units:
            continue
        ms = call_many("numpy_params", [units])[0]
        want = [[m[0], m[1], m[2] or ""] for m in ms]
        if len({w[0] for w in want}) != len(want):
            continue        # a repeated name overwrites the earlier entry (dict semantics): not part of the model
        text = "Header.\n\nParameters\n----------\n" + "\n".join(l for u in units for l in u)
        try:
            with contextlib.redirect_stderr(io.StringIO()):
                ir = parse_docstring(text, emit_default_doc=False)
            got = [[k, v.get("typ"), v.get("doc") or ""] for k, v in ir["params"].items()]
        except BaseException as e:  # noqa
            got = "raises " + type(e).__name__
        n += 1
        if got != want:
            bad.append({"stage": "NumPy parameter section", "input": units, "impl": got, "model": want})
    return n, bad


# ---- where the prose ends (Model/GoogleHead.v) -------------------------------------------------------------------------------------
HEADS = ["Scale every sample of the signal.", "The gain is applied sample by sample; the function then", "Nothing is modified in place.",
         "args: see below for the details", "A note about usage - colons: like this one", "Returns nothing", "See Args: below.", "x", "Arguments follow"]
SEPS = ["\n\n", "\n", "\n    \n    ", "\n\n\n", " ", "", "\n  "]


def gen_head(rng):
    paras = [" ".join(rng.sample(HEADS, rng.randint(1, 2))) for _ in range(rng.randint(0, 3))]
    head = rng.choice(["\n\n", "\n"]).join(paras)
    k = rng.random()
    if k < 0.7:
        body = "Args:\n" + "\n".join("  %s (%s): %s" % (rng.choice(NAMES), rng.choice(TYPES), rng.choice(WORDS)) for _ in range(rng.randint(1, 3)))
    elif k < 0.85:
        body = "Returns:\n  int: the result"
    else:
        body = rng.choice(["", "Argh: not a section", "Parameters"])
    lead = rng.choice(["", "", "\n", "\n    "])
    return lead + head + (rng.choice(SEPS) if body else "") + body


def compare_head(texts):
    from cdd.shared.docstring_parsers import _scan_phase_numpydoc_and_google, parse_docstring
    from cdd.shared.docstring_utils import Style
    bad, n = [], 0
    for t, m in zip(texts, call_many("google_scan_doc", texts)):
        try:
            with contextlib.redirect_stderr(io.StringIO()):
                i = _scan_phase_numpydoc_and_google(t, parse_original_whitespace=False, arg_tokens=("Args:",), return_tokens=("Returns:",),
                                                    style=Style.google)["doc"]
        except BaseException as e:  # noqa
            i = "raises " + type(e).__name__
        n += 1
        if i != m:
            bad.append({"stage": "Google scanner: text in front of the section", "input": t, "impl": i, "model": m})
    with_args = [t for t in texts if "Args:\n  " in t and "Returns:" not in t]
    for t, m in zip(with_args, call_many("google_docstring", with_args)):
        if not m[2] or m[1] in ("raises", "other"):
            continue        # lines after the section (or a cut inside it) are appended to the description afterwards: not in the model
        try:
            with contextlib.redirect_stderr(io.StringIO()):
                i = parse_docstring(t, emit_default_doc=False)["doc"]
        except BaseException as e:  # noqa
            i = "raises " + type(e).__name__
        n += 1
        if i != m[0]:
            bad.append({"stage": "Google docstring: description of the parsed interface", "input": t, "impl": i, "model": m[0]})
    return n, bad


# ---- the line scanner and the whole docstring (Model/GoogleScan.v) ------------------------------------------------------------------
def gen_section(rng):
    """lines after "Args:": parameter lines at indent 2, continuation lines, now and then a blank or a dedented line"""
    lines = []
    for _ in range(rng.randint(1, 5)):
        k = rng.random()
        if k < 0.65 or not lines:
            n, t = rng.choice(NAMES), rng.choice(TYPES)
            d = " ".join(rng.choice(WORDS) for _ in range(rng.randint(1, 5)))
            lines.append(rng.choice(["  %s (%s): %s" % (n, t, d), "  %s: %s" % (n, d), "  %s (%s): " % (n, t)]))
        elif k < 0.8:
            lines.append("    " + " ".join(rng.choice(WORDS) for _ in range(rng.randint(1, 4))))
        elif k < 0.9:
            lines.append(rng.choice(["", "   ", " x", "Note"]))
        else:
            lines.append("  " + rng.choice(["Raises:", "see: this", "plain words"]))
    return "\n".join(lines) + rng.choice(["", "\n"])


def compare_scan(sections, docs):
    from cdd.shared.docstring_parsers import _scan_phase_numpydoc_and_google, parse_docstring
    from cdd.shared.docstring_utils import Style
    bad, n = [], 0
    for sec, m in zip(sections, call_many("google_section_units", sections)):
        text = "Header.\n\nArgs:\n" + sec
        try:
            with contextlib.redirect_stderr(io.StringIO()):
                i = _scan_phase_numpydoc_and_google(text, parse_original_whitespace=False, arg_tokens=("Args:",), return_tokens=("Returns:",),
                                                    style=Style.google).get("Args:")
        except BaseException as e:  # noqa
            i = "raises " + type(e).__name__
        n += 1
        if i != m[0]:
            bad.append({"stage": "Google scanner: units of the parameter section", "input": sec, "impl": i, "model": m[0]})
    for t, m in zip(docs, call_many("google_docstring", docs)):
        if m[1] == "other":
            continue
        try:
            with contextlib.redirect_stderr(io.StringIO()):
                ir = parse_docstring(t, emit_default_doc=False)
            i = [ir["doc"], [[k, v.get("typ"), v.get("doc") or ""] for k, v in ir["params"].items()]]
        except BaseException as e:  # noqa
            i = ["raises", "raises"]
        # a description of several lines is folded afterwards by _set_name_and_type (word_wrap on): " ".join(map(str.strip, lines)).rstrip()
        fold = lambda d_: " ".join(x.strip() for x in d_.split("\n")).rstrip()
        want_params = m[1] if m[1] == "raises" else [[a, b, fold(c_)] for a, b, c_ in m[1]]
        if want_params != "raises" and (len({w[0] for w in want_params}) != len(want_params) or
                                        any(t_ in w[2] for w in want_params for t_ in ("str", "int", " or", "or ", "List", "`"))):
            continue
        n += 1
        if i[1] != want_params:
            bad.append({"stage": "Google docstring: parameters", "input": t, "impl": i[1], "model": want_params})
        elif m[2] and i[0] != m[0]:
            bad.append({"stage": "Google docstring: description", "input": t, "impl": i[0], "model": m[0]})
    return n, bad


# ---- a whole NumPy docstring (Model/NumpyScan.v) ------------------------------------------------------------------------------------
def gen_numpy_doc(rng):
    lines = []
    for n in rng.sample(NAMES, rng.randint(1, 4)):
        k = rng.random()
        if k < 0.8:
            lines.append("%s : %s" % (n, rng.choice(TYPES)))
            if rng.random() < 0.8:
                lines.append("    " + " ".join(rng.choice(WORDS) for _ in range(rng.randint(1, 5))))
        elif k < 0.9:
            lines.append(n)
            lines.append("    " + rng.choice(WORDS))
        else:
            lines.append(rng.choice(["", "Notes:", "  x", "See also"]))
    head = rng.choice(["Scale it.", "Two paragraphs.\n\nOf prose", "A well-known a-b case", "x"])
    return rng.choice(["", "\n", "\n    "]) + head + rng.choice(["\n\n", "\n", "\n\n\n"]) + "Parameters\n----------\n" + "\n".join(lines) + rng.choice(["", "\n"])


def compare_numpy_doc(docs):
    from cdd.shared.docstring_parsers import parse_docstring
    bad, n = [], 0
    for t, m in zip(docs, call_many("numpy_docstring", docs)):
        fold = lambda d_: " ".join(x.strip() for x in d_.split("\n")).rstrip()      # what _set_name_and_type makes of several lines
        want = [[a, b, fold(c_ or "")] for a, b, c_ in m[1]]
        if len({w[0] for w in want}) != len(want) or any(t_ in w[2] for w in want for t_ in ("str", "int", " or", "or ", "List", "`")):
            continue
        try:
            with contextlib.redirect_stderr(io.StringIO()):
                ir = parse_docstring(t, emit_default_doc=False)
            i = [ir["doc"], [[k, v.get("typ"), v.get("doc") or ""] for k, v in ir["params"].items()]]
        except BaseException as e:  # noqa
            i = ["raises", "raises " + type(e).__name__]
        n += 1
        if i[1] != want:
            bad.append({"stage": "NumPy docstring: parameters", "input": t, "impl": i[1], "model": want})
        elif m[2] and i[0] != m[0]:
            bad.append({"stage": "NumPy docstring: description", "input": t, "impl": i[0], "model": m[0]})
    return n, bad


# ---- the Google emitter as a whole (Model/GoogleEmit.v) -----------------------------------------------------------------------------
def compare_emit(cases):
    """cases: gen() results; the description is drawn here"""
    import random
    from collections import OrderedDict
    from cdd.docstring.emit import docstring
    from cdd.shared.docstring_parsers import parse_docstring
    bad, n = [], 0
    rng = random.Random(len(cases))
    qs = []
    for c in cases:
        doc = rng.choice(["Scale it.", "Load the dataset", "Two paragraphs.\n\nOf prose", "x", ""])
        qs.append([doc, c["entries"]])
    for (doc, es), m in zip(qs, call_many("google_emit", qs)):
        ir = {"name": None, "doc": doc, "returns": None,
              "params": OrderedDict((e[0], {k: v for k, v in (("typ", e[1]), ("doc", e[2])) if v is not None}) for e in es)}
        try:
            with contextlib.redirect_stderr(io.StringIO()):
                i = docstring(ir, docstring_format="google", word_wrap=False, emit_default_doc=False, indent_level=0)
        except BaseException as e:  # noqa
            i = "raises " + type(e).__name__
        n += 1
        if i != m:
            bad.append({"stage": "Google docstring emitter", "input": [doc, es], "impl": i, "model": m})
            continue
        # the theorem's domain: a clean one-paragraph colon-free description, every entry documented -> the text parses back
        if doc and "\n" not in doc and ":" not in doc and all(e[2] for e in es):
            try:
                with contextlib.redirect_stderr(io.StringIO()):
                    back = parse_docstring(i, emit_default_doc=False)
                got = [back["doc"], [[k, v.get("typ"), v.get("doc") or ""] for k, v in back["params"].items()]]
            except BaseException as e:  # noqa
                got = "raises " + type(e).__name__
            if got != [doc, [[e[0], e[1], e[2]] for e in es]]:
                bad.append({"stage": "Google round trip through the real emitter and parser (theorem's domain)", "input": [doc, es], "impl": got,
                            "model": [doc, es]})
    return n, bad


# ---- the NumPy emitter as a whole (Model/NumpyEmit.v) -------------------------------------------------------------------------------
def compare_emit_numpy(cases):
    import random
    from collections import OrderedDict
    from cdd.docstring.emit import docstring
    from cdd.shared.docstring_parsers import parse_docstring
    bad, n = [], 0
    rng = random.Random(len(cases) + 1)
    qs = []
    for c in cases:
        doc = rng.choice(["Scale it.", "Load the dataset", "Two paragraphs.\n\nOf prose", "x", "", "A well-known a-b case"])
        qs.append([doc, c["entries"]])
    for (doc, es), m in zip(qs, call_many("numpy_emit", qs)):
        ir = {"name": None, "doc": doc, "returns": None,
              "params": OrderedDict((e[0], {k: v for k, v in (("typ", e[1]), ("doc", e[2])) if v is not None}) for e in es)}
        try:
            with contextlib.redirect_stderr(io.StringIO()):
                i = docstring(ir, docstring_format="numpydoc", word_wrap=False, emit_default_doc=False, indent_level=0)
        except BaseException as e:  # noqa
            i = "raises " + type(e).__name__
        n += 1
        if i != m:
            bad.append({"stage": "NumPy docstring emitter", "input": [doc, es], "impl": i, "model": m})
            continue
        # the theorem's domain: a clean one-paragraph description without ":" and "-", every entry typed
        if doc and "\n" not in doc and ":" not in doc and "-" not in doc and all(e[1] for e in es) and \
                not any(t_ in (e[2] or "") for e in es for t_ in ("str", "int", " or", "or ", "List", "`")):
            try:
                with contextlib.redirect_stderr(io.StringIO()):
                    back = parse_docstring(i, emit_default_doc=False)
                got = [back["doc"], [[k, v.get("typ"), v.get("doc") or ""] for k, v in back["params"].items()]]
            except BaseException as e:  # noqa
                got = "raises " + type(e).__name__
            if got != [doc, [[e[0], e[1], e[2] or ""] for e in es]]:
                bad.append({"stage": "NumPy round trip through the real emitter and parser (theorem's domain)", "input": [doc, es], "impl": got,
                            "model": [doc, es]})
    return n, bad


# ---- defaults are made a suffix (Model/ForceDefaults.v) -----------------------------------------------------------------------------
def gen_force(rng):
    ps = []
    for n in rng.sample(NAMES, rng.randint(1, 6)):
        t = rng.choice(["int", "float", "str", "bool", "List[str]", "Optional[int]", None])
        ps.append([n, t, rng.random() < 0.35])
    return ps


def compare_force(cases):
    from cdd.shared.ast_utils import NoneStr
    from cdd.shared.docstring_parsers import parse_docstring
    bad, n = [], 0
    ZERO = {"int": 0, "float": 0.0, "str": "", "bool": False}
    for ps, m in zip(cases, call_many("force_future", [[[t, own] for _n, t, own in ps] for ps in cases])):
        lines = []
        for name, t, own in ps:
            doc = "the value" + (". Defaults to 7" if own else "")
            lines.append(("  %s (%s): %s" % (name, t, doc)) if t else ("  %s: %s" % (name, doc)))
        text = "Header.\n\nArgs:\n" + "\n".join(lines)
        try:
            with contextlib.redirect_stderr(io.StringIO()):
                ir = parse_docstring(text, emit_default_doc=False)
            got = []
            for name, t, own in ps:
                p = ir["params"].get(name) or {}
                if "default" not in p:
                    got.append(None)
                elif p["default"] == NoneStr:
                    got.append("nonestr")
                elif own:
                    got.append("own")
                else:
                    got.append(["zero", t] if t in ZERO and p["default"] == ZERO[t] and type(p["default"]) is type(ZERO[t]) else ["other", repr(p["default"])])
        except BaseException as e:  # noqa
            got = "raises " + type(e).__name__
        n += 1
        if got != m:
            bad.append({"stage": "Google docstring: defaults forced onto the parameters after the first default", "input": text, "impl": got, "model": m})
    return n, bad
