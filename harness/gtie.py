"""Correspondence of Model/GoogleLine.v with the Google parameter lines: emit_param_str (style "google") and the unit reader of
_parse_phase_numpydoc_and_google as reached through parse_docstring."""
import contextlib
import io

from .model import call_many

NAMES = ["a", "alpha", "beta_2", "x", "dataset_name", "K", "_private", "kw", "n0"]
TYPES = ["int", "str", "float", "bool", "List[str]", "Optional[int]", "Dict[str, int]", "Literal['a', 'b']", "Union[int, str]",
         "Callable[[int], str]", "np.ndarray", "Tuple[int, ...]"]
WORDS = ["the", "size", "within", "buffer", "in", "bytes", "name", "used", "for", "lookup", "how", "many", "items", "a-b", "x_y", "[units]", "100%",
         "fast;", "slow,", "it's", "3.5", "N/A"]
WILD = ["  ", " ", "a", "alpha", "b_2", "(", ")", ":", "int", "str", "List[str]", "the value", "x", " or ", "{", "}", ", ", "{x, y}"]


def gen(rng):
    """-> {"entries": [[name, typ|None, doc|None]...] (the domain of C01_google_params_roundtrip), "wild": [line...]}"""
    es = []
    for n in rng.sample(NAMES, rng.randint(1, 5)):
        t = rng.choice(TYPES) if rng.random() < 0.8 else None
        d = " ".join(rng.choice(WORDS) for _ in range(rng.randint(1, 6))) if rng.random() < 0.8 else None
        es.append([n, t, d])
    wild = []
    for _ in range(rng.randint(1, 4)):
        body = "".join(rng.choice(WILD) for _ in range(rng.randint(1, 7))).strip()
        if body:
            wild.append("  " + body)
    return {"entries": es, "wild": wild}


def _read(lines):
    from cdd.shared.docstring_parsers import parse_docstring
    text = "Header.\n\nArgs:\n" + "\n".join(lines)
    try:
        with contextlib.redirect_stderr(io.StringIO()):
            ir = parse_docstring(text, emit_default_doc=False)
    except BaseException as e:  # noqa
        return "raises", type(e).__name__
    return [[k, v.get("typ"), v.get("doc") or ""] for k, v in ir["params"].items()], ir.get("doc")


def compare(cases):
    from cdd.shared.docstring_utils import emit_param_str
    bad, n = [], 0
    flat = [e for c in cases for e in c["entries"]]
    for e, m in zip(flat, call_many("google_emit_param", flat)):
        p = {}
        if e[1] is not None:
            p["typ"] = e[1]
        if e[2] is not None:
            p["doc"] = e[2]
        with contextlib.redirect_stderr(io.StringIO()):
            i = emit_param_str((e[0], p), style="google", emit_doc=True, emit_type=True, word_wrap=False, emit_default_doc=False, purpose="function")
        n += 1
        if i != m:
            bad.append({"stage": "Google parameter line (emit_param_str)", "input": e, "impl": i, "model": m})
    # lines the model wrote (the theorem's domain) and malformed lines
    sets = []
    for c in cases:
        sets.append(("domain", [m for m in call_many("google_emit_param", c["entries"])], c["entries"]))
        if c["wild"]:
            sets.append(("wild", c["wild"], None))
    for (kind, lines, entries), m in zip(sets, call_many("google_params", [s[1] for s in sets])):
        if m == "other":
            continue
        got = _read(lines)
        n += 1
        want = "raises" if m == "raises" else [[a, b, c_] for a, b, c_ in m]
        if want != "raises" and len({w[0] for w in want}) != len(want):
            continue        # a repeated name overwrites the earlier entry (dict semantics): not part of the model
        if want != "raises" and any(t_ in w[2] for w in want for t_ in ("str", "int", " or", "or ", "List", "`")):
            continue        # a description that names a type: parse_adhoc_doc_for_typ re-types the entry afterwards (C17's model, not this one)
        if got[0] != want:
            bad.append({"stage": "Google parameter section (%s lines)" % kind, "input": lines, "impl": got[0], "model": want})
        elif kind == "domain" and want != [[e[0], e[1], e[2] or ""] for e in entries]:
            bad.append({"stage": "Google round trip (theorem's domain)", "input": entries, "impl": got[0], "model": want})
    return n, bad


# ---- NumPy entries (Model/NumpyLine.v) ---------------------------------------------------------------------------------------------
NWILD = ["a", "alpha", " ", ":", " : ", "int", "List[str]", "the value", "x", "b_2"]


def gen_numpy(rng):
    """-> units: [[first line, deeper-indented lines...]...]; mostly what the emitter writes for a typed parameter, some malformed"""
    units = []
    for n in rng.sample(NAMES, rng.randint(1, 4)):
        k = rng.random()
        if k < 0.7:
            t = rng.choice(TYPES)
            d = " ".join(rng.choice(WORDS) for _ in range(rng.randint(1, 6))) if rng.random() < 0.8 else None
            units.append({"entry": [n, t, d]})
        else:
            first = "".join(rng.choice(NWILD) for _ in range(rng.randint(1, 5))).strip()
            if first:
                units.append({"lines": [first] + (["    " + rng.choice(["the value", "x: y", "more text"])] if rng.random() < 0.6 else [])})
    return units


def compare_numpy(cases):
    from cdd.shared.docstring_parsers import parse_docstring
    from cdd.shared.docstring_utils import emit_param_str
    bad, n = [], 0
    entries = [u["entry"] for c in cases for u in c if "entry" in u]
    flags = [(True, True), (False, True), (True, False)]
    q = [[et, ed] + e for e in entries for et, ed in flags]
    for a, m in zip(q, call_many("numpy_emit_param", q)):
        p = {k: v for k, v in (("typ", a[3]), ("doc", a[4])) if v is not None}
        with contextlib.redirect_stderr(io.StringIO()):
            i = emit_param_str((a[2], p), style="numpydoc", emit_doc=a[1], emit_type=a[0], word_wrap=False, emit_default_doc=False, purpose="function")
        n += 1
        if i != "\n".join(m):
            bad.append({"stage": "NumPy parameter entry (emit_param_str)", "input": a, "impl": i, "model": m})
    for c in cases:
        units = []
        for u in c:
            if "entry" in u:
                e = u["entry"]
                units.append([e[0] + " : " + e[1]] + (["    " + e[2]] if e[2] is not None else []))
            else:
                units.append(u["lines"])
        if not units:
            continue
        ms = call_many("numpy_params", [units])[0]
        want = [[m[0], m[1], m[2] or ""] for m in ms]
        if len({w[0] for w in want}) != len(want):
            continue        # a repeated name overwrites the earlier entry (dict semantics): not part of the model
        text = "Header.\n\nParameters\n----------\n" + "\n".join(l for u in units for l in u)
        try:
            with contextlib.redirect_stderr(io.StringIO()):
                ir = parse_docstring(text, emit_default_doc=False)
            got = [[k, v.get("typ"), v.get("doc") or ""] for k, v in ir["params"].items()]
        except BaseException as e:  # noqa
            got = "raises " + type(e).__name__
        n += 1
        if got != want:
            bad.append({"stage": "NumPy parameter section", "input": units, "impl": got, "model": want})
    return n, bad
