"""Correspondence of Model/FindAst.v with cdd.shared.ast_utils.find_in_ast (after annotate_ancestry), on (module source, search path)
pairs.  Results are compared by POSITION: index path of the node through the body lists / (path of the function, index of the
parameter) / None / TypeError.  Used by C13 (input and output lookups) and C12 (target lookups)."""
import ast

from .model import call_many


def _positions(tree):
    m = {id(tree): ["node", []]}

    def walk(body, prefix):
        for i, n in enumerate(body):
            m[id(n)] = ["node", prefix + [i]]
            if isinstance(n, ast.ClassDef):
                walk(n.body, prefix + [i])
            elif isinstance(n, ast.FunctionDef):
                for k, a in enumerate(n.args.args):
                    m[id(a)] = ["arg", prefix + [i], k]
    walk(tree.body, [])
    return m


def impl(src, search):
    from cdd.shared.ast_utils import annotate_ancestry, find_in_ast
    tree = ast.parse(src)
    annotate_ancestry(tree)
    pos = _positions(tree)
    try:
        r = find_in_ast(list(search), tree)
    except TypeError:
        return ["error"]
    if r is None:
        return ["none"]
    return pos.get(id(r), ["unknown", type(r).__name__])


def to_nodes(body, ids):
    U = ast.unparse
    out = []
    for n in body:
        if isinstance(n, ast.ClassDef):
            out.append(["c", n.name, to_nodes(n.body, ids)])
        elif isinstance(n, ast.FunctionDef):
            out.append(["f", n.name, [[a.arg, U(a.annotation) if a.annotation else None] for a in n.args.args],
                        [[a.arg, U(a.annotation) if a.annotation else None] for a in n.args.kwonlyargs],
                        [U(d) for d in n.args.defaults], 0])
        elif isinstance(n, ast.AnnAssign) and isinstance(n.target, ast.Name):
            out.append(["a", n.target.id, U(n.annotation), U(n.value) if n.value is not None else None])
        elif isinstance(n, ast.Assign) and len(n.targets) == 1 and isinstance(n.targets[0], ast.Name):
            out.append(["s", n.targets[0].id, U(n.value)])
        else:
            out.append(["o", 0])
    return out


def compare(cases):
    """cases: [(source, [name, ...])] -> (n, kinds, disagreements)"""
    ms = call_many("find_in_ast", [[list(s), to_nodes(ast.parse(src).body, None)] for src, s in cases])
    bad, kinds = [], {}
    for (src, s), m in zip(cases, ms):
        i = impl(src, s)
        kinds[i[0]] = kinds.get(i[0], 0) + 1
        if i != m:
            bad.append({"stage": "find_in_ast", "input": {"search": list(s), "source": src}, "impl": i, "model": m})
    return len(cases), kinds, bad


def searches(rng, src, extra_names=()):
    """search paths for one module: every definable path, plus misses, 3-name paths and the empty path"""
    tree = ast.parse(src)
    out = [[]]
    names = []
    for n in tree.body:
        if isinstance(n, ast.ClassDef):
            names.append(n.name)
            out.append([n.name])
            for b in n.body:
                if isinstance(b, ast.AnnAssign) and isinstance(b.target, ast.Name):
                    out.append([n.name, b.target.id])
                elif isinstance(b, ast.FunctionDef):
                    out.append([n.name, b.name])
                    out += [[n.name, b.name, a.arg] for a in b.args.args + b.args.kwonlyargs]
        elif isinstance(n, ast.FunctionDef):
            names.append(n.name)
            out.append([n.name])
            out += [[n.name, a.arg] for a in n.args.args + n.args.kwonlyargs]
        elif isinstance(n, (ast.Assign, ast.AnnAssign)):
            t = n.targets[0] if isinstance(n, ast.Assign) else n.target
            if isinstance(t, ast.Name):
                out.append([t.id])
    pool = names + list(extra_names) + ["nope"]
    for _ in range(3):
        out.append([rng.choice(pool), rng.choice(pool)])
        out.append([rng.choice(pool)])
    return out
