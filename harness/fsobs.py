"""Observation of a child interpreter: audit-hook event log + recursive file-system snapshots.
Used by C20, C19, C17, C07, C12, C13 (everything that runs `python -m cdd ...` or library calls in a scratch tree)."""
import hashlib
import json
import os
import subprocess
import sys

from .common import REPO

PY = sys.executable

# Runs in the child BEFORE anything of cdd is imported.  argv: wrapper.py <logfile> <mode> ...
#   mode "-m": runpy.run_module(argv[3]) with argv[4:]      mode "-f": runpy.run_path(argv[3])
WRAPPER = r'''
import sys, os, json
_log = open(sys.argv[1], "a", buffering=1)
_W = ("os.mkdir", "os.rmdir", "os.remove", "os.rename", "os.symlink", "os.link", "os.chmod", "os.chown",
      "os.truncate", "os.utime", "shutil.copyfile", "shutil.copymode", "shutil.copystat", "shutil.copytree",
      "shutil.move", "shutil.rmtree", "shutil.make_archive", "shutil.unpack_archive", "tempfile.mkstemp",
      "tempfile.mkdtemp", "os.mkfifo", "os.mknod")
_P = ("subprocess.Popen", "os.system", "os.exec", "os.posix_spawn", "os.fork", "os.forkpty", "os.spawn", "os.startfile",
      "pty.spawn", "os.kill")
_N = ("socket.connect", "socket.bind", "socket.getaddrinfo", "socket.gethostbyname", "socket.sendto", "socket.sendmsg",
      "urllib.Request", "http.client.connect", "ftplib.connect", "smtplib.connect", "socket.__new__")
_busy = [False]
def _hook(ev, args):
    if _busy[0]:
        return
    _busy[0] = True
    try:
        rec = None
        if ev == "open":
            path, mode, flags = (list(args) + [None, None, None])[:3]
            wr = False
            if isinstance(mode, str):
                wr = any(c in mode for c in "wax+")
            elif isinstance(flags, int):
                wr = bool(flags & (os.O_WRONLY | os.O_RDWR | os.O_CREAT | os.O_TRUNC | os.O_APPEND))
            if wr and path != sys.argv[1]:
                rec = {"ev": "open-write", "path": path if isinstance(path, (str, int)) else repr(path), "mode": mode}
        elif ev in _W:
            rec = {"ev": ev, "path": [a if isinstance(a, (str, int)) else repr(a) for a in args[:2]]}
        elif ev in _P:
            rec = {"ev": ev, "args": repr(args)[:300]}
        elif ev in _N:
            rec = {"ev": ev, "args": repr(args)[:200]}
        elif ev == "exec":
            co = args[0]
            rec = {"ev": "exec", "file": getattr(co, "co_filename", "?"), "names": list(getattr(co, "co_names", ()))[:40],
                   "name": getattr(co, "co_name", "?")}
        elif ev == "compile":
            src, fn = (list(args) + [None, None])[:2]
            if fn is not None and not str(fn).endswith(".py"):
                s = src if isinstance(src, (str, bytes)) else None
                if isinstance(s, bytes):
                    s = s.decode("utf8", "replace")
                rec = {"ev": "compile", "file": str(fn), "src": (s[:300] if s is not None else None)}
        elif ev == "import":
            rec = {"ev": "import", "module": args[0]}
        if rec is not None:
            _log.write(json.dumps(rec) + "\n")
    except Exception as e:
        try:
            _log.write(json.dumps({"ev": "hook-error", "e": repr(e)}) + "\n")
        except Exception:
            pass
    finally:
        _busy[0] = False
sys.addaudithook(_hook)
import runpy
_mode = sys.argv[2]
if _mode == "-m":
    _m = sys.argv[3]
    sys.argv = [_m] + sys.argv[4:]
    runpy.run_module(_m, run_name="__main__", alter_sys=True)
else:
    _f = sys.argv[3]
    sys.argv = [_f] + sys.argv[4:]
    runpy.run_path(_f, run_name="__main__")
'''


def wrapper_path(d):
    p = os.path.join(d, "_verif_wrapper.py")
    if not os.path.exists(p):
        with open(p, "w") as f:
            f.write(WRAPPER)
    return p


def run_observed(workdir, argv, mode="-m", extra_path=(), cwd=None, timeout=300, hashseed="0", stdin=None, env_extra=None):
    """Run `python -m <argv[0]> argv[1:]` (or a file) in a child under the audit wrapper.
    workdir: a scratch directory OUTSIDE the observed tree for the wrapper + log.
    Returns dict(rc, out, err, events)."""
    os.makedirs(workdir, exist_ok=True)
    wp = wrapper_path(workdir)
    log = os.path.join(workdir, "audit_%d_%s.log" % (os.getpid(), hashlib.sha1(repr(argv).encode()).hexdigest()[:8]))
    if os.path.exists(log):
        os.remove(log)
    env = dict(os.environ)
    env["PYTHONPATH"] = os.pathsep.join([REPO] + list(extra_path))
    env["PYTHONHASHSEED"] = str(hashseed)
    env["PYTHONDONTWRITEBYTECODE"] = "1"
    env.pop("VERIF_SEED", None)
    # third-party caches (black/blib2to3 grammar pickles) go to the unobserved work directory
    env["BLACK_CACHE_DIR"] = os.path.join(workdir, "black-cache")
    env["XDG_CACHE_HOME"] = os.path.join(workdir, "xdg-cache")
    env.update(env_extra or {})
    try:
        p = subprocess.run([PY, "-W", "ignore", wp, log, mode] + list(argv), stdout=subprocess.PIPE, stderr=subprocess.PIPE,
                           text=True, env=env, cwd=cwd or workdir, timeout=timeout, input=stdin)
        rc, out, err = p.returncode, p.stdout, p.stderr
    except subprocess.TimeoutExpired as e:
        rc, out, err = -9, (e.stdout or ""), "TIMEOUT"
        if isinstance(out, bytes):
            out = out.decode("utf8", "replace")
    events = []
    if os.path.exists(log):
        with open(log) as f:
            for line in f:
                try:
                    events.append(json.loads(line))
                except ValueError:
                    pass
        os.remove(log)
    err = "\n".join(l for l in err.splitlines() if "conda" not in l.lower())
    return {"rc": rc, "out": out, "err": err, "events": events}


def snapshot(root):
    """path (relative) -> [kind, size, sha1 | link target, mode, mtime_ns]; directories included."""
    snap = {}
    if not os.path.lexists(root):
        return snap
    for base, dirs, files in os.walk(root):
        dirs.sort()
        for d in dirs:
            p = os.path.join(base, d)
            st = os.lstat(p)
            snap[os.path.relpath(p, root)] = ["dir", 0, "", st.st_mode, st.st_mtime_ns]
        for f in sorted(files):
            p = os.path.join(base, f)
            st = os.lstat(p)
            if os.path.islink(p):
                snap[os.path.relpath(p, root)] = ["link", 0, os.readlink(p), st.st_mode, st.st_mtime_ns]
            else:
                with open(p, "rb") as fh:
                    h = hashlib.sha1(fh.read()).hexdigest()
                snap[os.path.relpath(p, root)] = ["file", st.st_size, h, st.st_mode, st.st_mtime_ns]
    st = os.lstat(root)
    snap["."] = ["dir", 0, "", st.st_mode, st.st_mtime_ns]
    return snap


def snap_diff(a, b, ignore_mtime_of_dirs=False):
    """-> dict(created=[..], deleted=[..], modified=[..]) (paths relative to the snapshot root)."""
    created = sorted(k for k in b if k not in a)
    deleted = sorted(k for k in a if k not in b)
    modified = []
    for k in a:
        if k in b and a[k] != b[k]:
            if ignore_mtime_of_dirs and a[k][0] == "dir" and a[k][:4] == b[k][:4]:
                continue
            modified.append(k)
    return {"created": created, "deleted": deleted, "modified": sorted(modified)}


def write_events(events, ignore_under=()):
    """Events that change the file system: list of (event name, path); paths under `ignore_under` dropped."""
    return [e for e in _write_events(events) if not any(under(e[1], r) for r in ignore_under)]


def _write_events(events):
    out = []
    for e in events:
        if e["ev"] == "open-write":
            out.append((e["ev"], e["path"]))
        elif e["ev"].startswith(("os.", "shutil.", "tempfile.")) and "path" in e:
            for p in e["path"]:
                if isinstance(p, str):
                    out.append((e["ev"], p))
    return out


def under(path, root):
    if not isinstance(path, str):
        return False
    rp, rr = os.path.realpath(path), os.path.realpath(root)
    return rp == rr or rp.startswith(rr.rstrip(os.sep) + os.sep)
