From Coq Require Import List Arith Lia.
Import ListNotations.
Section Scanner.
  Variable ch : Type.
  Variable is_nl : ch -> bool.
  (* opaque predicates of the real code: the theorem is parametric in them *)
  Variable is_comment has_triple is_other : list ch -> bool.
  (* inner splitter decision of cst_scan's is_other_statement branch: given the expression so far, cut here? *)
  Variable cut_here : list ch -> bool.

  (* inner loop: walk statement, accumulate expression, cut when cut_here *)
  Fixpoint split_other (expr : list ch) (stmt : list ch) (acc : list (list ch)) : list (list ch) :=
    match stmt with
    | [] => match expr with [] => acc | _ => acc ++ [expr] end
    | c :: rest =>
        let e := expr ++ [c] in
        if cut_here e then split_other [] rest (acc ++ [e]) else split_other e rest acc
    end.

  Definition cst_scan (scanned : list (list ch)) (stack : list ch) : list (list ch) * list ch :=
    if is_comment stack then (scanned ++ [stack], [])
    else if is_other stack then (split_other [] stack scanned, [])
    else if has_triple stack then (scanned ++ [stack], [])
    else (scanned, stack).

  Fixpoint scanner_loop (src : list ch) (scanned : list (list ch)) (stack : list ch) :=
    match src with
    | [] => let '(sc, st) := cst_scan scanned stack in
            match st with [] => sc | _ => sc ++ [st] end
    | c :: rest =>
        let '(sc, st) := if is_nl c then cst_scan scanned stack else (scanned, stack) in
        scanner_loop rest sc (st ++ [c])
    end.
  Definition cst_scanner src := scanner_loop src [] [].

  Lemma split_other_concat : forall stmt expr acc,
    concat (split_other expr stmt acc) = concat acc ++ expr ++ stmt.
  Proof.
    induction stmt as [|c rest IH]; intros expr acc; cbn [split_other].
    - destruct expr; rewrite ?concat_app; cbn; rewrite ?app_nil_r; reflexivity.
    - destruct (cut_here (expr ++ [c])); rewrite IH.
      + rewrite concat_app. cbn. rewrite app_nil_r, <- !app_assoc. reflexivity.
      + rewrite <- !app_assoc. reflexivity.
  Qed.

  Lemma cst_scan_concat : forall scanned stack sc st,
    cst_scan scanned stack = (sc, st) -> concat sc ++ st = concat scanned ++ stack.
  Proof.
    unfold cst_scan; intros scanned stack sc st H.
    destruct (is_comment stack); [inversion H; subst; rewrite concat_app; cbn; rewrite !app_nil_r; reflexivity|].
    destruct (is_other stack); [inversion H; subst; rewrite split_other_concat; cbn; rewrite !app_nil_r; reflexivity|].
    destruct (has_triple stack); inversion H; subst; rewrite ?concat_app; cbn; rewrite ?app_nil_r; reflexivity.
  Qed.

  Lemma loop_concat : forall src scanned stack,
    concat (scanner_loop src scanned stack) = concat scanned ++ stack ++ src.
  Proof.
    induction src as [|c rest IH]; intros scanned stack; cbn [scanner_loop].
    - destruct (cst_scan scanned stack) as [sc st] eqn:E. apply cst_scan_concat in E.
      rewrite app_nil_r, <- E. destruct st; rewrite ?concat_app; cbn; rewrite ?app_nil_r; reflexivity.
    - destruct (is_nl c).
      + destruct (cst_scan scanned stack) as [sc st] eqn:E. apply cst_scan_concat in E.
        rewrite IH, <- app_assoc. cbn. rewrite app_assoc, E, <- app_assoc. reflexivity.
      + rewrite IH, <- app_assoc. reflexivity.
  Qed.

  Theorem cst_scanner_lossless : forall src, concat (cst_scanner src) = src.
  Proof. intro src. unfold cst_scanner. rewrite loop_concat. reflexivity. Qed.
End Scanner.
Print Assumptions cst_scanner_lossless.
