"""Prototype effect-skeleton translator + Python port of the checker (scratch)."""
import ast, sys, os
FILES=['cdd/compound/exmod.py','cdd/compound/exmod_utils.py','cdd/shared/emit/file.py','cdd/shared/pkg_utils.py']
ROOT=sys.argv[1] if len(sys.argv)>1 else '/repo'
EFFECT_CALLS={'makedirs','mkdir','remove','rmtree','unlink','rename','replace','rmdir','copy','copyfile','move','write','writelines','truncate','symlink'}
funcs={}      # name -> (file, FunctionDef)
OS_IMPORTED=set()
for f in FILES:
    tree=ast.parse(open(os.path.join(ROOT,f)).read())
    for n in ast.walk(tree):
        if isinstance(n,(ast.FunctionDef,ast.AsyncFunctionDef)): funcs.setdefault(n.name,(f,n))
        if isinstance(n,ast.ImportFrom) and n.module in ('os','shutil'):
            for a in n.names: OS_IMPORTED.add(a.asname or a.name)
DERIVED={}
def callee_name(c):
    f=c.func
    if isinstance(f,ast.Name): return f.id
    if isinstance(f,ast.Attribute): return f.attr
    return None
def is_write_open(c):
    if callee_name(c)!='open' : return False
    mode=None
    if len(c.args)>1: mode=c.args[1]
    for k in c.keywords:
        if k.arg=='mode': mode=k.value
    if mode is None: return False
    if isinstance(mode,ast.Constant) and isinstance(mode.value,str): return any(ch in mode.value for ch in 'wax+')
    return True   # unknown mode: conservative
def dry_test(t):
    """return ('dry',pol) if test is `dry_run` / `not dry_run`, else None"""
    if isinstance(t,ast.Name) and t.id=='dry_run': return True
    if isinstance(t,ast.UnaryOp) and isinstance(t.op,ast.Not) and isinstance(t.operand,ast.Name) and t.operand.id=='dry_run': return False
    if isinstance(t,ast.BoolOp) and isinstance(t.op,ast.And) and any(dry_test(v) is False for v in t.values): return 'and_not_dry'
    if isinstance(t,ast.BoolOp) and isinstance(t.op,ast.And) and any(dry_test(v) is True for v in t.values): return 'and_dry'
    if isinstance(t,ast.Name) and t.id in DERIVED: return DERIVED[t.id]
    return None
def dry_kw(c):
    for k in c.keywords:
        if k.arg=='dry_run':
            if isinstance(k.value,ast.Name) and k.value.id=='dry_run': return 'pass'
            if isinstance(k.value,ast.Constant): return ('const',bool(k.value.value))
            return 'unknown'
    return 'pass'   # positional / absent: callee sees caller's notion (conservative for callee without param: irrelevant)
def expr_block(e, cur):
    """skeleton of evaluating expression e (list of stmts)"""
    out=[]
    if e is None: return out
    if isinstance(e,ast.IfExp):
        out+=expr_block(e.test,cur)
        d=dry_test(e.test)
        t=expr_block(e.body,cur); f=expr_block(e.orelse,cur)
        if t or f: out.append(('if',('dry',d) if d is not None else ('opaque',),t,f))
        return out
    if isinstance(e,ast.Lambda): return out+[('defer',expr_block(e.body,cur))] if expr_block(e.body,cur) else out
    if isinstance(e,ast.Call):
        for a in e.args: out+=expr_block(a,cur)
        for k in e.keywords: out+=expr_block(k.value,cur)
        out+=expr_block(e.func,cur) if not isinstance(e.func,ast.Name) else []
        nm=callee_name(e)
        is_eff=False
        if isinstance(e.func,ast.Name) and nm in EFFECT_CALLS and nm in OS_IMPORTED: is_eff=True
        if isinstance(e.func,ast.Attribute) and nm in EFFECT_CALLS and isinstance(e.func.value,ast.Name) and e.func.value.id in ('os','shutil'): is_eff=True
        if isinstance(e.func,ast.Attribute) and nm in ('write_text','write_bytes','touch','mkdir','unlink','rmdir','rename') and not (isinstance(e.func.value,ast.Name) and e.func.value.id in ('os','shutil')): is_eff=True  # pathlib-style
        if is_eff or is_write_open(e): out.append(('eff',nm,e.lineno))
        elif nm=='partial' and e.args and isinstance(e.args[0],(ast.Name,ast.Attribute)):
            tgt=e.args[0].id if isinstance(e.args[0],ast.Name) else e.args[0].attr
            if tgt in funcs: out.append(('call',tgt,dry_kw(e),e.lineno))
        elif nm in funcs and isinstance(e.func,(ast.Name,ast.Attribute)): out.append(('call',nm,dry_kw(e),e.lineno))
        return out
    if isinstance(e,ast.Name):
        if isinstance(e.ctx,ast.Load) and e.id in funcs and e.id!=cur: out.append(('call',e.id,'pass',e.lineno))  # function used as value
        return out
    for ch in ast.iter_child_nodes(e):
        if isinstance(ch,ast.expr): out+=expr_block(ch,cur)
        elif isinstance(ch,(ast.comprehension,)):
            out+=expr_block(ch.iter,cur)
            for i in ch.ifs: out+=expr_block(i,cur)
        elif isinstance(ch,ast.keyword): out+=expr_block(ch.value,cur)
    return out
def stmt_block(ss, cur):
    out=[]
    for s in ss:
        if isinstance(s,ast.If):
            out+=expr_block(s.test,cur); d=dry_test(s.test)
            t=stmt_block(s.body,cur); f=stmt_block(s.orelse,cur)
            if t or f: out.append(('if',('dry',d) if d is not None else ('opaque',),t,f))
        elif isinstance(s,(ast.For,ast.AsyncFor)):
            out+=expr_block(s.iter,cur); b=stmt_block(s.body+s.orelse,cur)
            if b: out.append(('loop',b))
        elif isinstance(s,ast.While):
            b=expr_block(s.test,cur)+stmt_block(s.body+s.orelse,cur)
            if b: out.append(('loop',b))
        elif isinstance(s,(ast.With,ast.AsyncWith)):
            for it in s.items: out+=expr_block(it.context_expr,cur)
            out+=stmt_block(s.body,cur)
        elif isinstance(s,ast.Try):
            out+=stmt_block(s.body,cur)
            for h in s.handlers:
                b=stmt_block(h.body,cur)
                if b: out.append(('if',('opaque',),b,[]))
            out+=stmt_block(s.orelse,cur)+stmt_block(s.finalbody,cur)
        elif isinstance(s,(ast.FunctionDef,ast.AsyncFunctionDef,ast.ClassDef)):
            pass  # nested def: body analysed as its own function (registered in funcs); reference => call
        else:
            for ch in ast.iter_child_nodes(s):
                if isinstance(ch,ast.expr): out+=expr_block(ch,cur)
    return out
PROG={}
for name,(f,fd) in funcs.items():
    DERIVED.clear()
    for n in ast.walk(fd):
        tgt=None
        if isinstance(n,ast.Assign) and len(n.targets)==1 and isinstance(n.targets[0],ast.Name): tgt,val=n.targets[0].id,n.value
        if isinstance(n,ast.AnnAssign) and isinstance(n.target,ast.Name) and n.value is not None: tgt,val=n.target.id,n.value
        if tgt and tgt!='dry_run':
            d=dry_test(val)
            if d in ('and_not_dry',False): DERIVED[tgt]='and_not_dry'
    PROG[name]=stmt_block(fd.body,name)
# ---- checker (port of Eff.v: effect rejected wherever reachable; guards follow the local flag)
def safe(block, loc, fuel, path):
    for s in block:
        if s[0]=='eff': return path+[('EFF',s[1],s[2])]
        if s[0]=='if':
            g=s[1]
            if g[0]=='dry' and g[1] in (True,False):
                br=s[2] if loc==g[1] else s[3]
                r=safe(br,loc,fuel,path)
                if r: return r
            elif g[0]=='dry' and g[1]=='and_not_dry':
                brs=[s[3]] if loc else [s[2],s[3]]
                for br in brs:
                    r=safe(br,loc,fuel,path)
                    if r: return r
            elif g[0]=='dry' and g[1]=='and_dry':
                brs=[s[2],s[3]] if loc else [s[3]]
                for br in brs:
                    r=safe(br,loc,fuel,path)
                    if r: return r
            else:
                for br in (s[2],s[3]):
                    r=safe(br,loc,fuel,path)
                    if r: return r
        if s[0] in ('loop','defer'):
            r=safe(s[1],loc,fuel,path)
            if r: return r
        if s[0]=='call':
            if fuel==0: return path+[('FUEL',s[1])]
            d=s[2]; loc2=loc if d=='pass' else (d[1] if isinstance(d,tuple) else None)
            if loc2 is None: loc2=False   # unknown value: assume not dry (worst case)
            key=(s[1],loc2)
            if key in path_seen: continue
            path_seen.add(key)
            r=safe(PROG[s[1]],loc2,fuel-1,path+[('CALL',s[1],s[3])])
            if r: return r
    return None
for entry in ('exmod',):
    path_seen=set()
    r=safe(PROG[entry],True,50,[])
    print("entry",entry,"dry=True ->", "SAFE" if r is None else "UNSAFE via "+str(r))
print({k:len(v) for k,v in PROG.items() if v})
