"""Prototype of the C18 import semantics (scratch; validates the design, not framework code)."""
import ast, os, sys
ROOT='/repo'
def discover():
    mods={}
    for root,dirs,files in os.walk(os.path.join(ROOT,'cdd')):
        for f in files:
            if f.endswith('.py'):
                p=os.path.relpath(os.path.join(root,f),ROOT)[:-3].replace(os.sep,'.')
                is_pkg=p.endswith('.__init__')
                if is_pkg: p=p[:-9]
                mods[p]=(os.path.join(root,f),is_pkg)
    return mods
MODS=discover()
def chain_of(node):
    parts=[]
    while isinstance(node,ast.Attribute):
        parts.append(node.attr); node=node.value
    if isinstance(node,ast.Name):
        parts.append(node.id); return parts[::-1]
    return None
class Collect(ast.NodeVisitor):
    """module-level evaluation order; do not enter function/lambda bodies"""
    def __init__(s): s.out=[]
    def visit_Import(s,n):
        for a in n.names: s.out.append(('import',a.name,a.asname))
    def visit_ImportFrom(s,n):
        assert n.level==0
        s.out.append(('from',n.module,[(a.name,a.asname) for a in n.names]))
    def _func(s,n):
        for d in n.decorator_list: s.visit(d)
        for d in n.args.defaults+[k for k in n.args.kw_defaults if k]: s.visit(d)
        # annotations evaluated at def time (no `from __future__ import annotations` assumed)
        for a in n.args.args+n.args.kwonlyargs+n.args.posonlyargs:
            if a.annotation: s.visit(a.annotation)
        if n.returns: s.visit(n.returns)
        s.out.append(('def',n.name))
    visit_FunctionDef=_func; visit_AsyncFunctionDef=_func
    def visit_Lambda(s,n): pass
    def visit_ClassDef(s,n):
        for d in n.decorator_list+n.bases+[k.value for k in n.keywords]: s.visit(d)
        for b in n.body: s.visit(b)   # names bound in class ns, but uses matter
        s.out.append(('def',n.name))
    def visit_Assign(s,n):
        s.visit(n.value)
        for t in n.targets:
            for x in ast.walk(t):
                if isinstance(x,ast.Name): s.out.append(('def',x.id))
    def visit_AnnAssign(s,n):
        if n.value: s.visit(n.value)
        s.visit(n.annotation)
        if isinstance(n.target,ast.Name): s.out.append(('def',n.target.id))
    def visit_Attribute(s,n):
        c=chain_of(n)
        if c and c[0]=='cdd': s.out.append(('use',c))
        else: s.generic_visit(n)
def stmts(mod):
    path,_=MODS[mod]
    c=Collect(); c.visit(ast.parse(open(path).read())); return c.out
PROG={m:stmts(m) for m in MODS}
class ImportErr(Exception): pass
def run(seq):
    state={}   # mod -> dict(status='loading'|'loaded', names=set(), children=set())
    def load(mod):
        if mod not in MODS: return  # external: fine
        parent=mod.rpartition('.')[0]
        if parent: load(parent)
        if mod in state: return
        st=state[mod]={'status':'loading','names':set(),'children':set()}
        for s in PROG[mod]: exec_stmt(mod,st,s)
        st['status']='loaded'
        if parent: state[parent]['children'].add(mod.rpartition('.')[2]); state[parent]['names'].add(mod.rpartition('.')[2])
    def exec_stmt(mod,st,s):
        if s[0]=='import':
            load(s[1])
            st['names'].add(s[2] or s[1].split('.')[0])
        elif s[0]=='from':
            m=s[1]; load(m)
            if m in MODS:
                for name,asname in s[2]:
                    if name=='*': continue
                    if name in state[m]['names']: pass
                    elif m+'.'+name in MODS:
                        load(m+'.'+name)
                    else: raise ImportErr(f"{mod}: cannot import name {name} from {m} ({state[m]['status']})")
                    st['names'].add(asname or name)
            else:
                for name,asname in s[2]: st['names'].add(asname or name)
        elif s[0]=='def': st['names'].add(s[1])
        elif s[0]=='use':
            c=s[1]
            if c[0] not in st['names']: raise ImportErr(f"{mod}: name {c[0]} unbound")
            cur=c[0]
            for attr in c[1:]:
                if cur in MODS:
                    if attr in state.get(cur,{'names':()})['names']:
                        cur=cur+'.'+attr if cur+'.'+attr in MODS and attr in state[cur]['children'] else None
                        if cur is None: break
                    else: raise ImportErr(f"{mod}: cannot access attribute {attr} of {cur}")
                else: break
    for m in seq: load(m)
    return state
pub=sorted(m for m in MODS if '.tests' not in m)
bad=[]
for m in pub:
    try: run([m])
    except ImportErr as e: bad.append(m); print("FAIL",m,"|",e)
print(len(pub),len(bad))
