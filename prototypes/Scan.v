From Coq Require Import List Bool Arith Lia.
Import ListNotations.
Section Scan.
  Variable ch : Type.
  Variable ch_eqb : ch -> ch -> bool.
  Hypothesis ch_eqb_spec : forall a b, ch_eqb a b = true <-> a = b.
  Definition str := list ch.
  Fixpoint str_eqb (a b : str) : bool :=
    match a, b with
    | [], [] => true
    | x :: a', y :: b' => ch_eqb x y && str_eqb a' b'
    | _, _ => false
    end.
  Lemma str_eqb_spec a : forall b, str_eqb a b = true <-> a = b.
  Proof.
    induction a as [|x a IH]; intros [|y b]; cbn; split; intro H; try reflexivity; try discriminate.
    - apply andb_true_iff in H as [H1 H2]. apply ch_eqb_spec in H1. apply IH in H2. congruence.
    - inversion H; subst. apply andb_true_iff; split; [apply ch_eqb_spec|apply IH]; reflexivity.
  Qed.
  (* python: tuple(stack_rev[:n]) == reversed token, i.e. stack ends with tok *)
  Definition ends_with (s tok : str) : bool :=
    str_eqb (firstn (length tok) (rev s)) (rev tok).
  Lemma ends_with_app s tok : ends_with (s ++ tok) tok = true.
  Proof.
    unfold ends_with. rewrite rev_app_distr, firstn_app, rev_length, Nat.sub_diag.
    rewrite <- (rev_length tok) at 1. rewrite firstn_all. cbn. rewrite app_nil_r.
    apply str_eqb_spec. reflexivity.
  Qed.
  Lemma ends_with_suffix s tok : ends_with s tok = true -> exists p, s = p ++ tok.
  Proof.
    unfold ends_with. intro H. apply str_eqb_spec in H.
    exists (rev (skipn (length tok) (rev s))).
    rewrite <- (rev_involutive tok) at 2. rewrite <- H, <- rev_app_distr, firstn_skipn, rev_involutive.
    reflexivity.
  Qed.

  Variable tokens : list str.
  Definition seg := (bool * str)%type.
  (* inner `for token in rev_known_tokens_t` loop; [snap] is the stale stack_rev snapshot *)
  Fixpoint tok_loop (toks : list str) (snap : str) (scanned : list seg) (stack : str) : list seg * str :=
    match toks with
    | [] => (scanned, stack)
    | t :: rest =>
        if ends_with snap t then
          let body := firstn (length stack - length t) stack in
          let scanned' := scanned ++ [(negb (Nat.eqb (length scanned) 0), body)] in
          tok_loop rest snap scanned' (firstn (length t) (skipn (length body) stack))
        else tok_loop rest snap scanned stack
    end.
  Definition step (st : list seg * str) (c : ch) : list seg * str :=
    let '(scanned, stack) := st in
    let stack' := stack ++ [c] in tok_loop tokens stack' scanned stack'.
  Definition scan_chars (s : str) (st : list seg * str) := fold_left step s st.

  Definition quiet (s : str) : bool := forallb (fun t => negb (ends_with s t)) tokens.

  Lemma tok_loop_quiet toks snap sc st :
    forallb (fun t => negb (ends_with snap t)) toks = true -> tok_loop toks snap sc st = (sc, st).
  Proof.
    induction toks as [|t r IH]; cbn; [reflexivity|]. intro H. apply andb_true_iff in H as [H1 H2].
    apply negb_true_iff in H1. rewrite H1. auto.
  Qed.

  (* feeding w from stack st when no intermediate stack ends with a token: nothing happens *)
  Lemma scan_quiet : forall w sc st,
    (forall k, 0 < k <= length w -> quiet (st ++ firstn k w) = true) ->
    scan_chars w (sc, st) = (sc, st ++ w).
  Proof.
    induction w as [|c w IH]; intros sc st H; cbn.
    - rewrite app_nil_r. reflexivity.
    - rewrite tok_loop_quiet.
      + rewrite IH. * rewrite <- app_assoc. reflexivity.
        * intros k Hk. rewrite <- app_assoc. cbn. apply (H (S k)). cbn. lia.
      + apply (H 1). cbn. lia.
  Qed.

  (* exactly one token fires: tokens = l1 ++ t :: l2, the others are quiet on the snapshot *)
  Lemma tok_loop_app l1 l2 snap sc st :
    forallb (fun t => negb (ends_with snap t)) l1 = true ->
    tok_loop (l1 ++ l2) snap sc st = tok_loop l2 snap sc st.
  Proof.
    induction l1 as [|a l1 IH]; cbn; [reflexivity|]. intro H. apply andb_true_iff in H as [H1 H2].
    apply negb_true_iff in H1. rewrite H1. auto.
  Qed.

  Lemma fire : forall l1 t l2 pre sc,
    tokens = l1 ++ t :: l2 ->
    forallb (fun t' => negb (ends_with (pre ++ t) t')) (l1 ++ l2) = true ->
    tok_loop tokens (pre ++ t) sc (pre ++ t) = (sc ++ [(negb (Nat.eqb (length sc) 0), pre)], t).
  Proof.
    intros l1 t l2 pre sc Htok Hq. rewrite Htok.
    rewrite forallb_app in Hq. apply andb_true_iff in Hq as [Hq1 Hq2].
    rewrite tok_loop_app by exact Hq1. cbn [tok_loop]. rewrite ends_with_app.
    rewrite app_length, Nat.add_sub, firstn_app, Nat.sub_diag, firstn_all. cbn [firstn]. rewrite app_nil_r.
    rewrite tok_loop_quiet by exact Hq2.
    rewrite skipn_app, Nat.sub_diag, skipn_all. cbn [skipn app]. rewrite firstn_all. reflexivity.
  Qed.

  (* one emitted segment: body w is quiet after the token, then the next token t' fires *)
  Lemma scan_segment : forall l1 t' l2 sc st w,
    tokens = l1 ++ t' :: l2 ->
    (forall k, 0 < k <= length w -> quiet (st ++ firstn k w) = true) ->
    (forall k, 0 < k < length t' -> quiet (st ++ w ++ firstn k t') = true) ->
    t' <> [] ->
    forallb (fun x => negb (ends_with (st ++ w ++ t') x)) (l1 ++ l2) = true ->
    scan_chars (w ++ t') (sc, st) = (sc ++ [(negb (Nat.eqb (length sc) 0), st ++ w)], t').
  Proof.
    intros l1 t' l2 sc st w Htok Hw Ht Hne Hothers.
    unfold scan_chars. rewrite fold_left_app. fold (scan_chars w (sc, st)). rewrite scan_quiet by exact Hw.
    destruct (exists_last Hne) as [t0 [c Et]]. rewrite Et in *. rewrite fold_left_app.
    fold (scan_chars t0 (sc, st ++ w)). rewrite scan_quiet.
    - cbn [fold_left step]. rewrite <- !app_assoc.
      replace (st ++ w ++ t0 ++ [c]) with ((st ++ w) ++ (t0 ++ [c])) by (rewrite <- app_assoc; reflexivity).
      rewrite <- Et in *. eapply fire; eauto. rewrite <- app_assoc. exact Hothers.
    - intros k Hk. rewrite <- app_assoc.
      replace (firstn k t0) with (firstn k (t0 ++ [c])) by (rewrite firstn_app; replace (k - length t0) with 0 by lia; cbn; rewrite app_nil_r; reflexivity).
      apply Ht. rewrite app_length. cbn. lia.
  Qed.
End Scan.
Print Assumptions scan_segment.
