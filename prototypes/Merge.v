From Coq Require Import List Bool Arith Permutation Lia.
Import ListNotations.
(* C10/C14 prototype: merge_params with Python's set iteration as an oracle *)
Section Merge.
  Variable name : Type.
  Variable name_eqb : name -> name -> bool.
  Hypothesis name_eqb_spec : forall a b, name_eqb a b = true <-> a = b.
  Variable param : Type.
  Variable mpp : param -> param -> param.      (* merge_present_params other target -> new target *)
  Definition params := list (name * param).    (* ordered dict *)

  Fixpoint lookup (n : name) (l : params) : option param :=
    match l with [] => None | (k, v) :: r => if name_eqb n k then Some v else lookup n r end.
  Fixpoint update (n : name) (f : param -> param) (l : params) : params :=
    match l with [] => [] | (k, v) :: r => if name_eqb n k then (k, f v) :: r else (k, v) :: update n f r end.
  Definition names (l : params) := map fst l.
  Definition mem (n : name) (l : params) := existsb (name_eqb n) (names l).

  (* loop 1: for name in other.keys() & target.keys()  -- set iteration: any enumeration *)
  Definition step1 (other : params) (t : params) (n : name) : params :=
    match lookup n other with Some o => update n (mpp o) t | None => t end.
  Definition loop1 (enum : list name) (other t : params) := fold_left (step1 other) enum t.
  (* loop 2 (corrected code): for name in other: if name not in target: target[name] = other[name] *)
  Definition loop2 (other t : params) : params :=
    fold_left (fun acc '(k, v) => if mem k acc then acc else acc ++ [(k, v)]) other t.
  Definition merge_params (enum : list name) (other t : params) := loop2 other (loop1 enum other t).

  Lemma names_update n f l : names (update n f l) = names l.
  Proof. induction l as [|[k v] r IH]; cbn; [reflexivity|]. destruct (name_eqb n k); cbn; [reflexivity|]. f_equal. exact IH. Qed.

  Lemma update_comm a b f g l : a <> b -> update a f (update b g l) = update b g (update a f l).
  Proof.
    intro Hab. induction l as [|[k v] r IH]; cbn; [reflexivity|].
    destruct (name_eqb b k) eqn:Eb, (name_eqb a k) eqn:Ea; cbn; rewrite ?Ea, ?Eb; try reflexivity.
    - apply name_eqb_spec in Ea, Eb. congruence.
    - rewrite IH. reflexivity.
  Qed.
  Lemma update_same a f g l : update a f (update a g l) = update a (fun v => f (g v)) l.
  Proof.
    induction l as [|[k v] r IH]; cbn; [reflexivity|].
    destruct (name_eqb a k) eqn:Ea; cbn; rewrite Ea; [reflexivity|]. rewrite IH. reflexivity.
  Qed.

  Lemma step1_comm other t a b : a <> b -> step1 other (step1 other t a) b = step1 other (step1 other t b) a.
  Proof.
    intro Hab. unfold step1. destruct (lookup a other), (lookup b other); try reflexivity.
    apply update_comm. congruence.
  Qed.

  (* any two enumerations of the same (duplicate-free) set give the same result *)
  Lemma loop1_perm other : forall e1 e2, Permutation e1 e2 -> NoDup e1 ->
    forall t, loop1 e1 other t = loop1 e2 other t.
  Proof.
    unfold loop1. induction 1 as [| x l l' HP IH | x y l | l l' l'' HP1 IH1 HP2 IH2]; intros Hnd t.
    - reflexivity.
    - cbn. apply IH. inversion Hnd; assumption.
    - cbn. rewrite step1_comm; [reflexivity|].
      inversion Hnd as [|? ? Hnotin _]; subst. intro E; subst. apply Hnotin. left. reflexivity.
    - rewrite IH1 by assumption. apply IH2. eapply Permutation_NoDup; eauto.
  Qed.

  Theorem merge_enum_independent other t e1 e2 :
    Permutation e1 e2 -> NoDup e1 -> merge_params e1 other t = merge_params e2 other t.
  Proof. intros HP Hnd. unfold merge_params. rewrite (loop1_perm other e1 e2 HP Hnd). reflexivity. Qed.

  (* order spec: documented (target) names first, unchanged order; then the other names in their own order *)
  Lemma loop1_names other : forall e t, names (loop1 e other t) = names t.
  Proof.
    unfold loop1. induction e as [|n e IH]; intros t; cbn; [reflexivity|].
    rewrite IH. unfold step1. destruct (lookup n other); [apply names_update|reflexivity].
  Qed.
  Lemma loop2_names_prefix : forall other t, exists extra, names (loop2 other t) = names t ++ extra.
  Proof.
    unfold loop2. induction other as [|[k v] r IH]; intros t; cbn.
    - exists []. rewrite app_nil_r. reflexivity.
    - destruct (mem k t).
      + apply IH.
      + destruct (IH (t ++ [(k, v)])) as [ex Hex]. exists (k :: ex).
        unfold names in *. rewrite Hex, map_app. cbn. rewrite <- app_assoc. reflexivity.
  Qed.
  Theorem merge_keeps_documented_order enum other t :
    exists extra, names (merge_params enum other t) = names t ++ extra.
  Proof.
    unfold merge_params. destruct (loop2_names_prefix other (loop1 enum other t)) as [ex H].
    exists ex. rewrite H, loop1_names. reflexivity.
  Qed.
End Merge.
Print Assumptions merge_enum_independent.
Print Assumptions merge_keeps_documented_order.
