"""prototype translator: /repo import graph -> Gallina (positive ids)"""
import sys, importlib.util
sys.argv=['x']
spec=importlib.util.spec_from_file_location('impsem','/verif/prototypes/impsem.py')
src=open('/verif/prototypes/impsem.py').read().split("pub=sorted")[0]
ns={}; exec(compile(src,'impsem','exec'),ns)
MODS=ns['MODS']; PROG=ns['PROG']
mods=sorted(MODS)
mid={m:i+1 for i,m in enumerate(mods)}
names={}
def nid(n):
    if n not in names: names[n]=len(names)+1
    return names[n]
# child name of module m within its parent is nid(last component)
out=[]
out.append("From Coq Require Import List PArith NArith Bool.\nImport ListNotations.\nRequire Import ImportSem.\nOpen Scope positive_scope.\n")
def pl(l): return "["+"; ".join(l)+"]"
def modref(m):  # Some id if internal else None
    return "Some %d"%mid[m] if m in mid else "None"
defs=[]
for m in mods:
    ss=[]
    for s in PROG[m]:
        if s[0]=='import':
            # chain of prefixes to load
            parts=s[1].split('.'); pref=['.'.join(parts[:i+1]) for i in range(len(parts))]
            if pref[0] not in mid: ss.append("SBind %d"%nid(s[2] or parts[0])); continue
            ss.append("SImport %s %d"%(pl([str(mid[p]) for p in pref if p in mid]), nid(s[2] or parts[0])))
        elif s[0]=='from':
            m2=s[1]
            if m2 not in mid:
                for name,asname in s[2]:
                    if name!='*': ss.append("SBind %d"%nid(asname or name))
                continue
            parts=m2.split('.'); pref=['.'.join(parts[:i+1]) for i in range(len(parts))]
            items=[]
            for name,asname in s[2]:
                sub=m2+'.'+name
                items.append("(%d, %s, %d)"%(nid(name), ("Some %d"%mid[sub]) if sub in mid else "None", nid(asname or name)))
            ss.append("SFrom %s %d %s"%(pl([str(mid[p]) for p in pref]), mid[m2], pl(items)))
        elif s[0]=='def': ss.append("SBind %d"%nid(s[1]))
        elif s[0]=='use':
            c=s[1]
            ss.append("SUse %s"%pl([str(nid(x)) for x in c]))
    parent=m.rpartition('.')[0]
    defs.append("(%d, mkMod %s %d %s)"%(mid[m], ("(Some %d)"%mid[parent]) if parent in mid else "None", nid(m.rpartition('.')[2]), pl(ss)))
out.append("Definition modules : list (positive * modinfo) :=\n  "+pl(["\n   "+d for d in defs])+".\n")
pub=[m for m in mods if '.tests' not in m]
def chain(m):
    parts=m.split('.'); return pl([str(mid['.'.join(parts[:i+1])]) for i in range(len(parts))])
out.append("Definition public : list (list positive) := %s.\n"%pl([chain(m) for m in pub]))
out.append("Definition root_mod : positive := %d.\n"%mid['cdd'])
out.append("Definition root_name : positive := %d.\n"%nid('cdd'))
open('ImportGraph.v','w').write("\n".join(out))
print(len(mods),"modules",len(pub),"public",len(names),"names",sum(len(PROG[m]) for m in mods),"stmts")
