From Coq Require Import List PArith Bool FMapPositive FSetPositive.
Import ListNotations.
Require Import ImportSem ImportGraph.
Definition mods : PM.t modinfo := fold_left (fun acc '(k, v) => PM.add k v acc) modules (PM.empty _).
Definition fuel := 400%nat.
Definition run (cs : list (list positive)) : result :=
  fold_left (fun r c => match r with Ok st => import_chain mods root_name root_mod fuel st c | e => e end) cs (Ok (PM.empty _)).
Definition ok (r : result) := match r with Ok _ => true | _ => false end.
Definition failing := filter (fun c => negb (ok (run [c]))) public.
Time Eval vm_compute in (length public, length failing, failing).
Definition errs := map (fun c => match run [c] with Err e => Some e | _ => None end) failing.
Time Eval vm_compute in errs.
(* names bound in every module after the run, as a canonical list *)
Definition names_of (r : result) : list (positive * list positive) :=
  match r with Ok st => map (fun '(k, ms) => (k, PS.elements (s_names ms))) (PM.elements st) | _ => [] end.
Definition pair_ok (a b : list positive) : bool :=
  match run [a; b], run [b; a] with
  | Ok s1, Ok s2 => true
  | _, _ => false end.
Definition good := filter (fun c => ok (run [c])) public.
Time Eval vm_compute in (length (filter (fun '(a, b) => negb (pair_ok a b)) (list_prod good good))).
