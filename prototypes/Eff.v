From Coq Require Import List Bool Arith Lia.
Import ListNotations.
Inductive guard := GDry (pol : bool) | GOpaque.
Inductive darg := DPass | DConst (b : bool).
Inductive stmt :=
| Eff (site : nat)
| If (g : guard) (t e : block)
| Call (f : nat) (d : darg)
| Loop (body : block)
with block := BNil | BCons (s : stmt) (b : block).
Definition prog := list block.
Definition body_of (p : prog) f := nth f p BNil.
Definition darg_val (d : darg) (dry : bool) := match d with DPass => dry | DConst b => b end.

(* big-step, nondeterministic; trace = list of effect sites *)
Inductive exec (p : prog) : bool -> block -> list nat -> Prop :=
| ENil : forall dry, exec p dry BNil []
| ECons : forall dry s b t1 t2, exec_s p dry s t1 -> exec p dry b t2 -> exec p dry (BCons s b) (t1 ++ t2)
with exec_s (p : prog) : bool -> stmt -> list nat -> Prop :=
| EEff : forall dry s, exec_s p dry (Eff s) [s]
| EDryT : forall dry t e tr, exec p dry t tr -> exec_s p dry (If (GDry dry) t e) tr
| EDryF : forall dry t e tr, exec p dry e tr -> exec_s p dry (If (GDry (negb dry)) t e) tr
| EOpT : forall dry t e tr, exec p dry t tr -> exec_s p dry (If GOpaque t e) tr
| EOpF : forall dry t e tr, exec p dry e tr -> exec_s p dry (If GOpaque t e) tr
| ECall : forall dry f d tr, exec p (darg_val d dry) (body_of p f) tr -> exec_s p dry (Call f d) tr
| ELoop0 : forall dry b, exec_s p dry (Loop b) []
| ELoopS : forall dry b t1 t2, exec p dry b t1 -> exec_s p dry (Loop b) t2 -> exec_s p dry (Loop b) (t1 ++ t2).
Scheme exec_ind2 := Minimality for exec Sort Prop
  with exec_s_ind2 := Minimality for exec_s Sort Prop.
Combined Scheme exec_mut from exec_ind2, exec_s_ind2.

Fixpoint safe (p : prog) (fuel : nat) : bool -> block -> bool :=
  match fuel with
  | 0 => fun _ _ => false
  | S fuel' =>
      fix go_b (dry : bool) (b : block) {struct b} : bool :=
        match b with
        | BNil => true
        | BCons s r =>
            (match s with
             | Eff _ => false
             | If (GDry pol) t e => if Bool.eqb dry pol then go_b dry t else go_b dry e
             | If GOpaque t e => go_b dry t && go_b dry e
             | Call f d => safe p fuel' (darg_val d dry) (body_of p f)
             | Loop body => go_b dry body
             end) && go_b dry r
        end
  end.

Definition ex : prog :=
  [ BCons (If (GDry true) BNil (BCons (Eff 1) BNil))
     (BCons (If GOpaque (BCons (Call 1 DPass) BNil) BNil)
     (BCons (Loop (BCons (If (GDry false) (BCons (Call 2 DPass) BNil) BNil) BNil)) BNil))
  ; BCons (If (GDry true) BNil (BCons (Eff 2) BNil)) BNil
  ; BCons (Eff 3) BNil ].
Example ex_safe : safe ex 5 true (body_of ex 0) = true. Proof. vm_compute. reflexivity. Qed.
Definition bad : prog := [ BCons (If GOpaque (BCons (Call 1 DPass) BNil) BNil) BNil ; BCons (Eff 9) BNil ].
Example bad_unsafe : safe bad 5 true (body_of bad 0) = false. Proof. vm_compute. reflexivity. Qed.

(* soundness: if the checker accepts, every execution is effect-free when its dry flag is true...
   generalised over the flag: accepted blocks produce no effect under the flag they were checked with *)
Lemma safe_sound p : forall fuel,
  (forall dry b tr, exec p dry b tr -> safe p fuel dry b = true -> tr = []) /\
  (forall dry s tr, exec_s p dry s tr -> forall r, safe p fuel dry (BCons s r) = true -> tr = []).
Proof.
  induction fuel as [|fuel IH].
  - split; intros; cbn in *; discriminate.
  - apply exec_mut.
    + reflexivity.
    + intros dry s b t1 t2 Hs IHs Hb IHb Hsafe.
      rewrite (IHs b Hsafe).
      cbn [safe] in Hsafe. apply andb_true_iff in Hsafe as [_ Hr].
      rewrite (IHb Hr). reflexivity.
    + intros dry s r H. cbn in H. discriminate.
    + intros dry t e tr He IHe r H. cbn [safe] in H. apply andb_true_iff in H as [H _].
      rewrite Bool.eqb_reflx in H. auto.
    + intros dry t e tr He IHe r H. cbn [safe] in H. apply andb_true_iff in H as [H _].
      destruct dry; cbn in H; auto.
    + intros dry t e tr He IHe r H. cbn [safe] in H. apply andb_true_iff in H as [H _].
      apply andb_true_iff in H as [H _]. auto.
    + intros dry t e tr He IHe r H. cbn [safe] in H. apply andb_true_iff in H as [H _].
      apply andb_true_iff in H as [_ H]. auto.
    + intros dry f d tr He _ r H. cbn [safe] in H. apply andb_true_iff in H as [H _].
      destruct IH as [IHb _]. eapply IHb; eauto.
    + reflexivity.
    + intros dry b t1 t2 Hb IHb Hl IHl r H.
      rewrite (IHl r H). cbn [safe] in H. apply andb_true_iff in H as [H _].
      rewrite (IHb H). reflexivity.
Qed.

Theorem checker_sound p fuel f :
  safe p fuel true (body_of p f) = true -> forall tr, exec p true (body_of p f) tr -> tr = [].
Proof. intros H tr He. destruct (safe_sound p fuel) as [Hb _]. eauto. Qed.
Print Assumptions checker_sound.
